"""
C13  Lookups return exactly the matching rows in documented order.

Theorems: lean/GristProps/C13.lean about GristModel/Lookup.lean (twowaymap.TwoWayMap with all bin
types and the insert rollback, lookup.SimpleLookupMapping / ContainsLookupMapping, the
`sorted_versions` cache, table.make_sort_spec); the ordering part reuses C14's `keyLt` theory.

Interpretation (fixed here):
 * "values" of a row = what a formula sees for the cell (`column.get_cell_value`): right-type value,
   `AltText` for a wrong-type cell, Record -> its row id, RecordSet / tuple -> list.
 * "equal" = Python `==` (so `True == 1 == 1.0`, `AltText('x') != 'x'`).  A list-valued cell never
   equals a scalar key.  The key of an exact (non-CONTAINS) argument is first converted to the
   column's type (`usertypes` conversion of the looked-up column + the column's rich value; that
   conversion is a PARAMETER taken from the real tree, it is not what this property is about).
 * CONTAINS(key): the cell is a list/tuple/RecordSet having an element `== key`; strings are not
   containers.  With `match_empty=m`: an EMPTY cell of a list column (empty list/tuple, or `None`,
   which is how an empty ChoiceList/RefList is stored) matches iff `m == key`.  Whether the scalars
   `0` / `False` in such a column count as "empty" is not said by the property: the oracle accepts
   both answers for those rows (the model follows the code: any falsy non-string counts as empty).
   The key of CONTAINS is NOT type-converted (the code does not, the documentation does not say so).
 * Order: order_by columns ('-' = descending), then manualSort (T has it) unless 'id' is named —
   nothing after 'id' counts —, then row id; `sort_by`: its column then row id; no order argument =
   row id.  The order is demanded only when, in every sort column, the values of the returned rows
   are mutually comparable (all numbers, all strings, or all None); otherwise only the SET of rows
   is demanded by the oracle (the model still predicts the exact list, with the SortKey fallback).
 * lookupOne = first row of that order, or the empty record (id 0).
 * Records and row ids: a Record - as the looked-up key (`$refcol`, `rec`), as the cell of a Ref
   column, as an element of a list cell (RefList, an Any formula column returning
   `list(R.lookupRecords(..))` / `[$r]`) - counts as its row id, so `owner=$id`, `owner=rec`,
   `owner=rec.id` name the same key and `CONTAINS($pr)` == `CONTAINS($pr.id)` (documented for
   Reference columns; generated Record keys are of the table the column refers to).  `.id` of a
   reference to a REMOVED row is 0, the stored number still is the key of `$pr` itself.
 * Several keys in one call (any mix of exact and CONTAINS keys): a row is returned iff EVERY key
   matches its column by the rules above; stream "mixed" (see MIXED_FIXED, gen_mixed_probe,
   trans_family, fixed_witness) exercises these, edits of the indexed cells included.
 * Outside the property (model/implementation correspondence only): unhashable (list) exact keys
   -> TypeError, NaN keys (never generated), unknown sort column -> KeyError, malformed
   order_by / sort_by -> TypeError.

Finding on the unchanged tree (known_findings.json): a stored lookup result is not re-evaluated when
the type of the looked-up key column changes while the looked-up table is EMPTY (the key conversion
changes, nothing is invalidated); it is told apart by its own signature: the cell violates the
property, the key column's type was changed on an empty T earlier in the history, and the very same
call evaluated afresh on the live engine satisfies the property.

Ordering assumption of `sorted_cache_valid` (Lean `Ev.allowed`): checked on every real event stream
(`protocol_violation`); the Lean counterexample that shows its necessity is driven straight into the
real LookupMapColumn / SortedLookupMapColumn objects (`witness_direct`) and must behave as the model.

Tie (component level): every `LookupMapColumn` of table T of a live engine is instrumented at run
time (`update_record`, `remove_row_id`, `_do_lookup_with_sort`, `_reset_sorted_versions`); the
exact event stream it sees (cell writes, deliveries, lookups with their results, index dumps after
every bundle: `_fwd`, `_bwd`, every `sorted_versions` entry) is replayed through the Lean event
machine and compared event by event.  Separately: random op sequences on real `TwoWayMap`s of all
25 bin-type pairs vs the model, and `table.make_sort_spec` vs the model.
Search (direct oracle): naive filter + sort over the table per the reading above, for every probe
formula cell after every bundle; naive recomputation of every real index and of every cached
sorted version; the inverse property of every real TwoWayMap after every op.
"""
import copy
import functools
import itertools
import json
import math
import os
import random
import subprocess

from gx import common

SORTCOLS = ["s1", "s2", "manualSort", "id"]
KTYPES = ["Int", "Text", "Numeric", "Any", "Bool"]


# ---------------------------------------------------------------------------------------------
# probe formulas (table P looks up in table T)

def _pr(kw, order=None, one=False):
  return {"kw": kw, "order": order, "one": one}

PROBES = [
  _pr([("k", "p", "p")]),
  _pr([("k", "p", "p")], ("order_by", "s1")),
  _pr([("k", "p", "p")], ("order_by", "-s1")),
  _pr([("k", "p", "p")], ("order_by", ("s2", "-s1"))),
  _pr([("k", "p", "p")], ("order_by", None)),
  _pr([("k", "p", "p")], ("sort_by", "s1")),
  _pr([("k", "p", "p")], ("sort_by", "-s2")),
  _pr([("k", "p", "p")], ("order_by", "-s1"), one=True),
  _pr([("k", "p", "p")], None, one=True),
  _pr([("k", "p", "p"), ("k2", "p", "q")], ("order_by", "s1")),
  _pr([("tags", "c", "p")]),
  _pr([("tags", ("c", ""), "p")], ("order_by", "-s1")),
  _pr([("k2", "p", "q"), ("tags", "c", "p")], ("order_by", ("s1", "id", "s2"))),
  _pr([("r", "p", "pr")], ("order_by", "s2")),
  _pr([("rl", "c", "pr")]),
  _pr([("r", "p", "p")]),
  _pr([("anyc", ("c", 0), "p")], ("order_by", "s1")),
  _pr([], ("order_by", "-s1")),
  _pr([("k", "p", "p")], ("order_by", ("-manualSort",))),
  _pr([("tags", "c", "p")], ("sort_by", "s1"), one=True),
  _pr([("k2", "p", "q")], ("order_by", ("-id",))),
  _pr([("anyc", "c", "p"), ("k", "p", "q")], ("order_by", ("s2", "s1"))),
]


def src_text(src):
  """formula text of a key source: a column of P (`$p`) or, prefixed with '=', an expression of the
  probing row: `=rec` (the Record itself), `=$id`, `=rec.id`, `=$pr.id` (row ids), or a literal."""
  return src[1:] if src.startswith("=") else "$" + src


def norm_probe(pr):
  """probe descriptor after a JSON round trip (replay files): kw entries back to tuples"""
  kw = []
  for (tcol, kind, src) in pr["kw"]:
    kw.append((tcol, tuple(kind) if isinstance(kind, (list, tuple)) else kind, src))
  order = pr.get("order")
  if order is not None:
    order = (order[0], tuple(order[1]) if isinstance(order[1], list) else order[1])
  return {"kw": kw, "order": order, "one": bool(pr.get("one"))}


def formula_text(pr):
  args = []
  for (tcol, kind, pcol) in pr["kw"]:
    if kind == "p":
      args.append("%s=%s" % (tcol, src_text(pcol)))
    elif kind == "c":
      args.append("%s=CONTAINS(%s)" % (tcol, src_text(pcol)))
    else:
      args.append("%s=CONTAINS(%s, match_empty=%r)" % (tcol, src_text(pcol), kind[1]))
  if pr["order"] is not None:
    args.append("%s=%r" % (pr["order"][0], pr["order"][1]))
  if pr["one"]:
    return "T.lookupOne(%s).id" % ", ".join(args)
  return "[r.id for r in T.lookupRecords(%s)]" % ", ".join(args)


# ---------------------------------------------------------------------------------------------
# MIXED key kinds ("mixed" histories): CONTAINS on a list column combined with equality keys on
# Ref / Int / Text / Bool / Choice columns in ONE call, keys given as Records, row ids, plain values;
# Any formula columns of T whose cells are lists of Records / ints / both.
#
# Extra columns of T in a mixed history: own Ref:P, b Bool, ch Choice, n Int, and two Any FORMULA
# columns arecs / aints (one formula each per history, from the variants below).  All formulas are
# total (no error cells): a key column holding an error is C13's neighbour, not this stream.

AREC_FORMULAS = [
  "[$r, $r] + list(R.lookupRecords(name=$k2))",            # Records, duplicates, AltText when $r is alt text
  "[$r] if $b is True else (None if $ch == 'a' else [])",    # list / None / empty list
  "$rl",                                                     # a RecordSet (or alt text) stored in an Any cell
  "list(R.lookupRecords(name=$k2, order_by='-id')) or None", # list(lookupRecords) / None
  "[$r, $id, $r]",                                           # Records and row ids mixed in one list
]
AINT_FORMULAS = [
  "[x.id for x in R.lookupRecords(name=$k2)] + [$n]",      # ints (+ None / AltText element)
  "[$n, $n, $id]",                                           # duplicates
  "[$id, $r]",                                               # row ids and Records mixed
  "[$n] if $n else ($n if $b else 'txt')",                   # list / 0 / None / AltText / str scalar
]

# candidate key sources per looked-up column: (source, is a Record?, is a row id?)
EQ_SOURCES = {
  "r":   ["pr", "=$pr.id", "=$id", "=2", "pr", "=$pr.id"],
  "own": ["=rec", "=$id", "=rec.id", "=1", "=rec", "=$id"],
  "n":   ["q", "=$id", "=1", "=2"],
  "k2":  ["q", "='a'", "='b'", "p"],
  "b":   ["=True", "=False", "p", "=True"],
  "ch":  ["p", "='a'", "q", "='b'"],
  "k":   ["p", "q"],
}
CT_SOURCES = {
  "tags":  ["p", "='a'", "='b'", "q", "p"],
  "rl":    ["pr", "=$pr.id", "=$id", "=2", "pr"],
  "anyc":  ["p", "q", "=1"],
  "arecs": ["pr", "=$pr.id", "=$id", "pr"],
  "aints": ["q", "=$id", "=$pr.id", "pr", "=1"],
}
MX_ORDERS = [None, None, ("order_by", "-s1"), ("order_by", "s1"), ("order_by", ("s2", "-s1")), ("order_by", None),
             ("sort_by", "s1"), ("order_by", ("-s1", "id")), ("order_by", ("s2", "-manualSort"))]

# fixed witnesses: the shapes of the coverage gap, present in EVERY mixed history
MIXED_FIXED = [
  _pr([("own", "p", "=$id"), ("tags", "c", "='a'")], ("order_by", "-s1")),
  _pr([("own", "p", "=rec"), ("tags", "c", "p")], None, one=True),
  _pr([("r", "p", "pr"), ("tags", "c", "p")]),
  _pr([("r", "p", "=$pr.id"), ("rl", "c", "pr")], ("order_by", "s1")),
  _pr([("arecs", "c", "pr")]),
  _pr([("arecs", "c", "=$pr.id"), ("b", "p", "=True")], ("order_by", ("s2", "-s1"))),
  _pr([("aints", "c", "q"), ("own", "p", "=rec")]),
  _pr([("n", "p", "=$id"), ("r", "p", "pr"), ("tags", ("c", ""), "p")], ("order_by", "-s1"), one=True),
]


def gen_mixed_probe(rng):
  """one lookup with 1-3 keys, at least one CONTAINS; equality keys mostly present"""
  r = rng.random()
  n_eq = 0 if r < 0.12 else (1 if r < 0.7 else 2)
  n_ct = 1 if (n_eq == 2 or rng.random() < 0.8) else 2
  kw = []
  for c in rng.sample(sorted(CT_SOURCES), n_ct):
    kind = "c"
    if rng.random() < 0.2:
      kind = ("c", rng.choice(["", 0, None, "a", 1]))
    kw.append((c, kind, rng.choice(CT_SOURCES[c])))
  eqcols = sorted(EQ_SOURCES)
  weights = [4 if c in ("r", "own") else 1 for c in eqcols]
  chosen = []
  while len(chosen) < n_eq:
    c = rng.choices(eqcols, weights)[0]
    if c not in chosen:
      chosen.append(c)
  for c in chosen:
    kw.append((c, "p", rng.choice(EQ_SOURCES[c])))
  kw.sort(key=lambda e: e[0])
  return _pr(kw, rng.choice(MX_ORDERS), one=rng.random() < 0.3)


def probe_class(pr):
  """(n CONTAINS keys, n equality keys, has an equality key on a Ref column, CONTAINS on an Any formula column)"""
  nc = sum(1 for (_, k, _) in pr["kw"] if k != "p")
  ne = sum(1 for (_, k, _) in pr["kw"] if k == "p")
  ref = any(k == "p" and c in ("r", "own") for (c, k, _) in pr["kw"])
  anyl = any(k != "p" and c in ("arecs", "aints") for (c, k, _) in pr["kw"])
  return nc, ne, ref, anyl


# ---------------------------------------------------------------------------------------------
# value canonicalisation (real python values -> the driver's JSON universe)

class OutOfUniverse(Exception):
  pass


def _extract(v):
  import records
  if isinstance(v, records.Record):
    return v._row_id
  if isinstance(v, records.RecordSet):
    return [int(x) for x in v._row_ids]
  return v


def pv_json(v):
  import objtypes
  if v is None or isinstance(v, bool) or isinstance(v, str):
    return v
  if isinstance(v, int):
    return v
  if isinstance(v, float):
    if math.isnan(v) or math.isinf(v):
      raise OutOfUniverse("nan/inf")
    if v == int(v) and abs(v) < 2 ** 53:
      return int(v)
    return {"f": repr(v)}
  if isinstance(v, objtypes.AltText):
    return {"a": str(v)}
  raise OutOfUniverse(type(v).__name__)


def cell_json(v):
  v = _extract(v)
  if isinstance(v, (list, tuple)):
    return [pv_json(_extract(x)) for x in v]
  return pv_json(v)


POS_SCALE = 2 ** 80


def val_json(v, position=False):
  """sort cell -> SortedFind.Val JSON.  manualSort positions (always floats, only ever compared with
  each other) are sent multiplied by 2^80: exact and order-preserving for every float of magnitude
  >= 2^-28, so fractional positions stay inside the model's integer universe."""
  if position:
    if isinstance(v, (int, float)) and not isinstance(v, bool) and not (isinstance(v, float) and (math.isnan(v) or math.isinf(v))):
      import fractions
      x = fractions.Fraction(v) * POS_SCALE
      if x.denominator == 1:
        return int(x)
    raise OutOfUniverse("position %r" % (v,))
  if v is None or isinstance(v, (bool, str)):
    return v
  if isinstance(v, int):
    return v
  if isinstance(v, float) and not math.isnan(v) and not math.isinf(v) and v == int(v) and abs(v) < 2 ** 53:
    return int(v)
  raise OutOfUniverse("sort value %r" % (v,))


def norm_pv(j):
  return int(j) if isinstance(j, bool) else j


def norm_cell(j):
  if isinstance(j, list):
    return [norm_pv(x) for x in j]
  return norm_pv(j)


def key_str(cells_json):
  """canonical string of a key given as list of cell JSON (bool normalised to int: dict keys are
  compared with ==)"""
  return json.dumps([norm_cell(c) for c in cells_json], sort_keys=True, separators=(",", ":"))


def canon_keys(keys):
  """iterable of real key tuples -> sorted list of canonical strings (`None` = "no key", which
  `remove_row_id` / `get_mapped_keys` of the simple mapping report for an unmapped row, is dropped)"""
  return sorted(key_str([cell_json(x) for x in k]) for k in keys if k is not None)


def canon_model_keys(keys_json):
  return sorted(key_str(k) for k in keys_json)


# ---------------------------------------------------------------------------------------------
# run-time instrumentation of the real lookup columns (no source hooks)

class Sink(object):
  active = None       # the Tracer receiving events, or None

SINK = Sink()


def install_wrappers():
  import lookup
  import twowaymap
  LMC = lookup.LookupMapColumn
  if getattr(LMC, "_gx13", False):
    return
  for name in ("__init__", "_do_lookup_with_sort", "_reset_sorted_versions"):
    if not hasattr(LMC, name):
      raise common.Infra("lookup.LookupMapColumn.%s has disappeared: cannot observe" % name)
  orig_init = LMC.__init__

  def __init__(self, table, col_id, col_ids_tuple):
    orig_init(self, table, col_id, col_ids_tuple)
    tr = SINK.active
    if tr is not None and table.table_id == "T":
      tr.new_session(self)
  LMC.__init__ = __init__

  def wrap_update(cls):
    orig = cls.update_record

    def update_record(self, rec):
      sess = getattr(self, "_gx_sess", None)
      if sess is None or not sess.live():
        return orig(self, rec)
      sess.sync()
      try:
        res = orig(self, rec)
      except BaseException as e:
        if sess.formula_keys and type(e).__name__ == "OrderError":
          # a FORMULA key column was not up to date: get_new_keys_iter raised before the index was
          # touched and the engine calls again later; no event of the index happened
          sess.tracer.order_errors += 1
          raise
        sess.event(["deliverKey", rec._row_id], {"raise": type(e).__name__})
        raise
      if sess.formula_keys:
        # formula key cells are computed INSIDE the call (getattr(rec, col)), before they are read
        sess.sync()
      sess.event(["deliverKey", rec._row_id], {"keys": sess.ckeys(res)})
      return res
    cls.update_record = update_record
  wrap_update(lookup.SimpleLookupMapping)
  wrap_update(lookup.ContainsLookupMapping)

  orig_remove = lookup.BaseLookupMapping.remove_row_id

  def remove_row_id(self, row_id):
    sess = getattr(self, "_gx_sess", None)
    if sess is None or not sess.live():
      return orig_remove(self, row_id)
    sess.sync()
    try:
      res = orig_remove(self, row_id)
    except BaseException as e:
      sess.event(["unset", row_id], {"raise": type(e).__name__})
      raise
    sess.event(["unset", row_id], {"keys": sess.ckeys(res)})
    sess.shadow.pop(row_id, None)
    return res
  lookup.BaseLookupMapping.remove_row_id = remove_row_id

  orig_lookup = LMC._do_lookup_with_sort

  def _do_lookup_with_sort(self, key, sort_spec, sort_key):
    sess = getattr(self._mapping, "_gx_sess", None)
    if sess is None or not sess.live():
      return orig_lookup(self, key, sort_spec, sort_key)
    try:
      if sort_spec in self._mapping._row_key_map._bwd.get(key, twowaymap.LookupSet()).sorted_versions:
        sess.tracer.cache_hits += 1
    except TypeError:
      pass
    try:
      res = orig_lookup(self, key, sort_spec, sort_key)
    except TypeError as e:
      sess.sync()
      sess.lookup_event(key, sort_spec, {"error": "TypeError"})
      raise
    # nested deliveries (the `_use_node` inside) have been recorded by now; the cache access of
    # this call happened after them
    sess.sync()
    sess.lookup_event(key, sort_spec, {"rows": [int(x) for x in res[0]]})
    return res
  LMC._do_lookup_with_sort = _do_lookup_with_sort

  orig_reset = LMC._reset_sorted_versions

  def _reset_sorted_versions(self, rec, sort_spec):
    sess = getattr(self._mapping, "_gx_sess", None)
    if sess is None or not sess.live():
      return orig_reset(self, rec, sort_spec)
    sess.sync()
    try:
      res = orig_reset(self, rec, sort_spec)
    except TypeError:
      sess.event(["deliverSort", rec._row_id, list(sort_spec)], {"error": "TypeError"})
      raise
    except BaseException as e:
      if sess.formula_keys and type(e).__name__ == "OrderError":
        sess.tracer.order_errors += 1
      raise
    if sess.formula_keys:
      sess.sync()
    sess.event(["deliverSort", rec._row_id, list(sort_spec)], {"keys": sess.ckeys(res)})
    return res
  LMC._reset_sorted_versions = _reset_sorted_versions
  LMC._gx13 = True


class Session(object):
  """The event stream of one real LookupMapColumn, with the expected (real) answers."""
  def __init__(self, tracer, col):
    import lookup
    self.tracer = tracer
    self.col = col
    self.col_id = col.col_id
    self.kinds = []
    self.keycols = []
    for c in col._mapping._col_ids_tuple:
      if isinstance(c, lookup._Contains):
        self.keycols.append(c.value)
        if c.match_empty is lookup._Contains.no_match_empty:
          self.kinds.append(["c"])
        else:
          self.kinds.append(["c", c.match_empty])
      else:
        self.keycols.append(c)
        self.kinds.append("p")
    self.events = []
    self.expect = []
    self.shadow = {}
    self.dead = None
    self.formula_keys = False     # some key column is a formula column (set by sync)
    self.bundle_of_event = []
    try:
      for k in self.kinds:
        if isinstance(k, list) and len(k) == 2:
          k[1] = pv_json(k[1])
    except OutOfUniverse as e:
      self.dead = "match_empty out of universe"
    col._mapping._gx_sess = self

  def live(self):
    return self.dead is None and SINK.active is self.tracer

  def kill(self, why):
    if self.dead is None:
      self.dead = why

  def ckeys(self, keys):
    try:
      return canon_keys(keys)
    except OutOfUniverse as e:
      self.kill("key out of universe: %s" % e)
      return []
    except Exception as e:      # never raise into the engine
      self.kill("harness: %s" % type(e).__name__)
      self.tracer.harness_errors.append("ckeys %r: %r" % (keys, e))
      return []

  def event(self, ev, expect):
    if self.dead is None:
      self.events.append(ev)
      self.expect.append(expect)
      self.bundle_of_event.append(self.tracer.step_no)

  def lookup_event(self, key, spec, expect):
    try:
      kj = [cell_json(x) for x in key]
    except OutOfUniverse as e:
      self.kill("lookup key out of universe: %s" % e)
      return
    self.event(["lookup", kj, list(spec)], expect)

  def sync(self):
    """Emit setKey / setSort for every row of T whose cells differ from what the model has seen."""
    if self.dead is not None:
      return
    tbl = self.tracer.doc.engine.tables.get("T")
    if tbl is None:
      return self.kill("table gone")
    try:
      kcols = [tbl.get_column(c) for c in self.keycols]
      scols = [tbl.get_column(c) for c in SORTCOLS]
    except KeyError:
      return self.kill("column gone")
    self.formula_keys = any(c.is_formula() for c in kcols)
    try:
      for r in tbl.row_ids:
        r = int(r)
        kc = [cell_json(c.get_cell_value(r)) for c in kcols]
        sc = [[cid, val_json(c.get_cell_value(r), cid == "manualSort")] for cid, c in zip(SORTCOLS, scols)]
        old = self.shadow.get(r)
        if old is None or old[0] != kc:
          self.event(["setKey", r, kc], None)
        if old is None or old[1] != sc:
          self.event(["setSort", r, sc], None)
        if old is None or old != (kc, sc):
          self.shadow[r] = (kc, sc)
    except OutOfUniverse as e:
      self.kill("cell out of universe: %s" % e)
    except Exception as e:
      self.kill("cell unreadable: %s" % type(e).__name__)

  def real_dump(self):
    m = self.col._mapping._row_key_map
    fwd = []
    for r, ks in m._fwd.items():
      keys = [ks] if isinstance(ks, tuple) else list(ks)
      fwd.append([int(r), canon_keys(keys)])
    bwd = []
    for k, s in m._bwd.items():
      caches = sorted([list(spec), [int(x) for x in rows]] for spec, rows in s.sorted_versions.items())
      bwd.append([key_str([cell_json(x) for x in k]), sorted(int(x) for x in s), caches])
    return {"fwd": sorted(fwd), "bwd": sorted(bwd)}

  def dump_event(self):
    if self.dead is not None:
      return
    self.sync()
    try:
      d = self.real_dump()
    except OutOfUniverse as e:
      return self.kill("index key out of universe: %s" % e)
    self.event(["dump"], d)

  def op(self):
    return {"m": "lookup", "op": "machine", "kinds": self.kinds, "sortCols": SORTCOLS, "events": self.events}


def canon_model_result(r):
  if r is None:
    return None
  if "keys" in r:
    return {"keys": canon_model_keys(r["keys"])}
  if "rows" in r or "error" in r:
    return r
  if "fwd" in r:
    fwd = sorted([row, canon_model_keys(keys)] for row, keys in r["fwd"])
    bwd = sorted([key_str(k), sorted(rows), sorted([spec, rs] for spec, rs in caches)]
                 for k, rows, caches in r["bwd"])
    return {"fwd": fwd, "bwd": bwd}
  return r


class Tracer(object):
  def __init__(self, doc):
    self.doc = doc
    self.sessions = []
    self.step_no = 0
    self.harness_errors = []
    self.cache_hits = 0
    self.order_errors = 0

  def new_session(self, col):
    self.sessions.append(Session(self, col))

  def after_step(self):
    for s in self.sessions:
      # a lookup column that the engine has discarded is no longer maintained
      cur = self.doc.engine.tables["T"]._special_cols.get(s.col_id) if "T" in self.doc.engine.tables else None
      if cur is not s.col:
        s.kill("column discarded")
        continue
      s.dump_event()
    self.step_no += 1


# ---------------------------------------------------------------------------------------------
# the direct oracle: naive filter + sort per the property text

def is_list(v):
  return isinstance(v, (list, tuple))


def is_nan(v):
  return isinstance(v, float) and math.isnan(v)


def is_number(v):
  return isinstance(v, (int, float)) and not is_nan(v)


class Table(object):
  """Rich cell values of T at one moment (what formulas see)."""
  def __init__(self, doc):
    tbl = doc.engine.tables["T"]
    self.tbl = tbl
    self.ids = sorted(int(r) for r in tbl.row_ids)
    self.cols = {}

  def cell(self, col, r):
    c = self.cols.setdefault(col, {})
    if r not in c:
      v = _extract(self.tbl.get_column(col).get_cell_value(r))
      # a Record inside a list cell (Any formula columns) counts as its row id, like a Record cell
      c[r] = [_extract(x) for x in v] if isinstance(v, (tuple, list)) else v
    return c[r]

  def convert_key(self, col, value):
    """the type-converted key of an exact-match argument (a parameter: the column's own conversion)"""
    c = self.tbl.get_column(col)
    return _extract(c._convert_raw_value(c.convert(value)))


def match_cell(kind, cell, key):
  """True / False / None (= not determined by the property)."""
  if kind == "p":
    if is_list(cell):
      return False
    return bool(cell == key)
  me_given = isinstance(kind, tuple)
  if isinstance(cell, (str, bytes)):
    return False
  if is_list(cell):
    if len(cell) == 0:
      return bool(me_given and kind[1] == key)
    return any(bool(x == key) for x in cell)
  if cell is None:
    return bool(me_given and kind[1] == key)
  if me_given and is_number(cell) and cell == 0 and kind[1] == key:
    return None           # 0 / False / 0.0 in a list column: "empty"?  not said
  return False


def oracle_spec(order):
  """[(column, descending)] per the property text; T has manualSort."""
  if order is None:
    return []
  kind, v = order
  def parse(c):
    return (c[1:], True) if c.startswith("-") else (c, False)
  if kind == "sort_by":
    return [parse(v)]
  t = () if v is None else ((v,) if isinstance(v, str) else tuple(v))
  out = []
  for c in t:
    if c == "id":
      return out
    out.append(parse(c))
  out.append(("manualSort", False))
  return out


def comparable(vals):
  if all(v is None for v in vals):
    return True
  if all(is_number(v) for v in vals):
    return True
  if all(isinstance(v, str) for v in vals):
    return True
  return False


def naive_lookup(tab, kwargs, order):
  """kwargs: [(tcol, kind, key)] with keys already converted.  Returns (must, may, ordered) where
  `must` = rows that have to be returned, `may` = rows the property does not decide, and
  ordered(rows) = the demanded order of a concrete row set, or None if sort values are not
  mutually comparable."""
  must, may = [], []
  for r in tab.ids:
    ms = [match_cell(kind, tab.cell(tcol, r), key) for (tcol, kind, key) in kwargs]
    if any(m is False for m in ms):
      continue
    (may if any(m is None for m in ms) else must).append(r)
  spec = oracle_spec(order)

  def ordered(rows):
    for (c, _) in spec:
      if not comparable([tab.cell(c, r) for r in rows]):
        return None
    def cmp(a, b):
      for (c, desc) in spec:
        x, y = tab.cell(c, a), tab.cell(c, b)
        if x is None:
          continue      # all None in this column
        if x < y:
          return 1 if desc else -1
        if y < x:
          return -1 if desc else 1
      return (a > b) - (a < b)
    return sorted(rows, key=functools.cmp_to_key(cmp))
  return must, may, ordered


def unhashable(v):
  try:
    hash(v)
    return False
  except TypeError:
    return True


def judge_probe(tab, pr, args, got):
  """pr: probe descriptor; args: {pcol: rich value}; got: the real result (list of ids / id, or
  ("E", class)).  Returns None or (signature, detail)."""
  kwargs = []
  for (tcol, kind, pcol) in pr["kw"]:
    v = _extract(args[pcol])
    if kind == "p":
      key = tab.convert_key(tcol, args[pcol])
      if is_list(key) or unhashable(key):
        # list-valued exact key: outside the property; only "an error value, no crash" is required
        if isinstance(got, tuple) and got[0] == "E":
          return None
        return ("lookup with an unhashable exact key returned a value instead of an error",
                "%s key %r -> %r" % (formula_text(pr), key, got))
      if is_nan(key):
        return None
      kwargs.append((tcol, "p", key))
    else:
      if is_list(v) or unhashable(v) or is_nan(v):
        return None       # CONTAINS(<list>): outside the property
      kwargs.append((tcol, "c" if kind == "c" else ("c", kind[1]), v))
  if isinstance(got, tuple) and got[0] == "E":
    return ("lookup raised %s on a valid call" % got[1], "%s args %r" % (formula_text(pr), args))
  must, may, ordered = naive_lookup(tab, kwargs, pr["order"])
  what = formula_text(pr)
  if pr["one"]:
    if not isinstance(got, int) or isinstance(got, bool):
      return ("lookupOne did not return a record", "%s -> %r" % (what, got))
    cands = set(must) | set(may)
    if got == 0:
      if must:
        return ("lookupOne returned the empty record although rows match",
                "%s keys %r: matching rows %r" % (what, kwargs, must))
      return None
    if got not in cands:
      return ("lookupOne returned a row that does not match", "%s keys %r -> %r, matching %r" % (what, kwargs, got, must))
    if may:
      return None
    exp = ordered(must)
    if exp is not None and exp[0] != got:
      return ("lookupOne is not the first row of the documented order (%s)" % order_name(pr["order"]),
              "%s keys %r -> %r, documented order %r" % (what, kwargs, got, exp))
    return None
  if not isinstance(got, list):
    return ("lookupRecords did not return a record set", "%s -> %r" % (what, got))
  if len(set(got)) != len(got):
    return ("lookup result lists a row twice", "%s keys %r -> %r" % (what, kwargs, got))
  missing = [r for r in must if r not in got]
  extra = [r for r in got if r not in must and r not in may]
  if missing:
    return ("lookup result misses a matching row (%s)" % kinds_name(pr), "%s keys %r -> %r, matching rows %r" % (what, kwargs, got, must))
  if extra:
    return ("lookup result has a row that does not match (%s)" % kinds_name(pr), "%s keys %r -> %r, matching rows %r" % (what, kwargs, got, must))
  exp = ordered(got)
  if exp is not None and exp != got:
    return ("lookup result is not in the documented order (%s)" % order_name(pr["order"]),
            "%s keys %r -> %r, documented order %r" % (what, kwargs, got, exp))
  return None


def order_name(order):
  if order is None:
    return "default"
  return "%s=%r" % order


def kinds_name(pr):
  ks = sorted(set("exact" if k == "p" else ("CONTAINS" if k == "c" else "CONTAINS+match_empty") for (_, k, _) in pr["kw"]))
  return "/".join(ks) or "no key"


def judge_index(tab, col):
  """Naive recomputation of a real LookupMapColumn's index and caches.  Returns None or detail."""
  import lookup
  mp = col._mapping
  m = mp._row_key_map
  kinds = []
  for c in mp._col_ids_tuple:
    if isinstance(c, lookup._Contains):
      kinds.append((c.value, "c" if c.match_empty is lookup._Contains.no_match_empty else ("c", c.match_empty)))
    else:
      kinds.append((c, "p"))
  # 1. _fwd and _bwd are mutually inverse
  pairs_f = set()
  for r, ks in m._fwd.items():
    for k in ([ks] if isinstance(ks, tuple) else ks):
      pairs_f.add((r, k))
  pairs_b = set()
  for k, s in m._bwd.items():
    if not s:
      return "empty LookupSet stored under key %r" % (k,)
    for r in s:
      pairs_b.add((r, k))
  if pairs_f != pairs_b:
    return "_fwd and _bwd are not inverse: only fwd %r only bwd %r" % (
      sorted(pairs_f - pairs_b, key=repr)[:3], sorted(pairs_b - pairs_f, key=repr)[:3])
  # 2. every stored pair matches, every row is under every key it matches (candidates: its own
  #    cells' elements and the match_empty values)
  undecided = False
  for (r, k) in pairs_f:
    if r not in tab.ids:
      return "index lists row %r which is not in the table" % (r,)
    ms = [match_cell(kind, tab.cell(c, r), x) for (c, kind), x in zip(kinds, k)]
    if any(x is False for x in ms):
      return "row %r is stored under key %r which its cells %r do not match" % (
        r, k, [tab.cell(c, r) for c, _ in kinds])
  for r in tab.ids:
    cands = []
    for (c, kind) in kinds:
      cell = tab.cell(c, r)
      if kind == "p":
        cands.append([cell] if not is_list(cell) and not unhashable(cell) else [])
      else:
        el = []
        if is_list(cell):
          el = [x for x in cell if not unhashable(x)]
        if isinstance(kind, tuple):
          el.append(kind[1])
        cands.append(el)
    for k in itertools.product(*cands):
      ms = [match_cell(kind, tab.cell(c, r), x) for (c, kind), x in zip(kinds, k)]
      if all(x is True for x in ms) and (r, k) not in pairs_f:
        return "row %r matches key %r but is not stored under it (cells %r)" % (
          r, k, [tab.cell(c, r) for c, _ in kinds])
  # 3. every cached sorted version is the sort of the current set under current values
  for k, s in m._bwd.items():
    for spec, rows in s.sorted_versions.items():
      if sorted(rows) != sorted(s):
        return "cached sorted version %r of key %r lists %r, the set is %r" % (spec, k, rows, sorted(s))
      osp = [((c[1:], True) if c.startswith("-") else (c, False)) for c in spec]
      if all(comparable([tab.cell(c, r) for r in rows]) for c, _ in osp):
        def cmp(a, b):
          for (c, desc) in osp:
            x, y = tab.cell(c, a), tab.cell(c, b)
            if x is None:
              continue
            if x < y:
              return 1 if desc else -1
            if y < x:
              return -1 if desc else 1
          return (a > b) - (a < b)
        exp = sorted(rows, key=functools.cmp_to_key(cmp))
        if exp != list(rows):
          return "cached sorted version %r of key %r is %r, a fresh sort gives %r" % (spec, k, list(rows), exp)
  return None


# ---------------------------------------------------------------------------------------------
# histories on a live engine

def col(i, t="Any"):
  return {"id": i, "type": t, "isFormula": False}


POOL_P = [0, 1, 2, 3, 1, 2, "a", "b", "x", "", "1", "2", None, True, False, 1.0, 2.5, "zz", "y", 7]
POOL_Q = ["a", "b", "", None, "1", 1, "a", "b", 0, 2]


class History(object):
  """One seeded history.  `steps` is the replayable record:
       ["apply", bundle]            one user-action bundle
       ["direct", kwargs]           a direct `T.lookup_records(**kwargs)` call from outside a formula
  """
  def __init__(self, cfg, model=True):
    from gx import engine_driver as ed
    install_wrappers()
    self.ed = ed
    self.cfg = cfg
    self.doc = ed.Doc()
    self.tracer = Tracer(self.doc) if model else None
    self.findings = []        # (signature, detail, step index)
    self.index_problems = []  # (detail, step index)
    self.steps = []
    self.last = None
    self.stats = {"bundles": 0, "rejected": 0, "probe_cells": 0, "ordered_checks": 0, "index_checks": 0,
                  "direct": 0}
    self.kinds = {}
    self.nontrivial = []
    self.probes = [PROBES[i] for i in cfg["probes"]] + [norm_probe(x) for x in cfg.get("xprobes", [])]
    self.ktype = cfg["ktype"]
    self.type_changed = False
    self.mixed = bool(cfg.get("mixed"))
    self.pclass = [probe_class(pr) for pr in self.probes]
    self.xsrcs = sorted(set(src for pr in self.probes for (_, _, src) in pr["kw"] if src.startswith("=")))
    self.prev_got = {}
    if self.mixed:
      self.KEYCOLS = History.KEYCOLS + ["own", "b", "ch", "n"]
      for k in ("mx_probe_cells", "mx_combined_cells", "mx_combined_ref_eq_cells", "mx_combined_nonempty",
                "mx_combined_ref_eq_nonempty", "mx_anylist_cells", "mx_anylist_nonempty", "mx_record_key_cells",
                "mx_rowid_key_cells", "mx_result_changed_after_edit", "mx_lookupOne_cells", "mx_ordered_cells"):
        self.stats[k] = 0

  # -- engine access
  def raw(self, bundle):
    SINK.active = self.tracer
    try:
      res = self.doc.apply(bundle)
    finally:
      SINK.active = None
    return res

  def setup(self):
    if self.mixed:
      return self.setup_mixed()
    b = [["AddTable", "R", [col("name", "Text")]],
         ["AddTable", "T", [col("k", self.ktype), col("k2", "Text"), col("r", "Ref:R"),
                            col("tags", "ChoiceList"), col("rl", "RefList:R"), col("anyc", "Any"),
                            col("s1", "Any"), col("s2", "Text")]],
         ["AddTable", "P", [col("p"), col("q"), col("pr", "Ref:R")] +
          [{"id": "f%d" % i, "type": "Any", "isFormula": True, "formula": formula_text(pr)}
           for i, pr in enumerate(self.probes)]],
         ["BulkAddRecord", "R", [None] * 4, {"name": ["a", "b", "c", "d"]}]]
    for x in b:
      r = self.raw([x])
      if not r.ok:
        raise common.Infra("setup action rejected: %r %r" % (x, r.error))

  def setup_mixed(self):
    """R, P (with the probes; P is still empty), then T with a Ref:P column and the Any formula columns"""
    def fcol(i, f):
      return {"id": i, "type": "Any", "isFormula": True, "formula": f}
    b = [["AddTable", "R", [col("name", "Text")]],
         ["AddTable", "P", [col("p"), col("q"), col("pr", "Ref:R")] +
          [fcol("f%d" % i, formula_text(pr)) for i, pr in enumerate(self.probes)]],
         ["AddTable", "T", [col("k", self.ktype), col("k2", "Text"), col("r", "Ref:R"),
                            col("tags", "ChoiceList"), col("rl", "RefList:R"), col("anyc", "Any"),
                            col("s1", "Any"), col("s2", "Text"),
                            col("own", "Ref:P"), col("b", "Bool"), col("ch", "Choice"), col("n", "Int"),
                            fcol("arecs", AREC_FORMULAS[self.cfg["arecs"]]),
                            fcol("aints", AINT_FORMULAS[self.cfg["aints"]])]],
         ["BulkAddRecord", "R", [None] * 4, {"name": ["a", "b", "c", "a"]}]]
    for x in b:
      r = self.raw([x])
      if not r.ok:
        raise common.Infra("setup action rejected: %r %r" % (x, r.error))

  def t_ids(self):
    return sorted(int(r) for r in self.doc.engine.tables["T"].row_ids)

  def p_ids(self):
    return sorted(int(r) for r in self.doc.engine.tables["P"].row_ids)

  def r_ids(self):
    return sorted(int(r) for r in self.doc.engine.tables["R"].row_ids)

  # -- steps
  def apply(self, bundle, kind):
    self.steps.append(["apply", copy.deepcopy(bundle)])
    self.kinds[kind] = self.kinds.get(kind, 0) + 1
    if "ModifyColumn" in json.dumps(bundle) and "T" in self.doc.engine.tables and not self.t_ids():
      self.type_changed = True
    res = self.raw(bundle)
    self.stats["bundles"] += 1
    if res.ok:
      if kind != "undo":
        self.last = res
      else:
        self.last = None
    else:
      self.stats["rejected"] += 1
      self.kinds["rejected:" + res.error[0]] = self.kinds.get("rejected:" + res.error[0], 0) + 1
    self.after_step()
    return res

  def direct(self, kwargs):
    """T.lookup_records(**kwargs) called from outside any formula."""
    self.steps.append(["direct", enc_kwargs(kwargs)])
    self.stats["direct"] += 1
    import table as table_mod
    tbl = self.doc.engine.tables["T"]
    SINK.active = self.tracer
    try:
      try:
        rs = tbl.lookup_records(**copy.deepcopy(kwargs))
        got = [int(x) for x in rs._row_ids]
      except Exception as e:
        got = ("E", type(e).__name__)
    finally:
      SINK.active = None
    # classify the call
    order_by = kwargs.get("order_by", "id")
    sort_by = kwargs.get("sort_by", None)
    try:
      spec = table_mod.make_sort_spec(order_by, sort_by, True)
      spec_err = None
    except TypeError:
      spec, spec_err = None, "TypeError"
    keys = {k: v for k, v in kwargs.items() if k not in ("order_by", "sort_by")}
    if spec_err:
      exp_kind = "TypeError"
    elif any(((c[1:] if c.startswith("-") else c) not in tbl.all_columns) for c in spec):
      exp_kind = "KeyError"
    else:
      exp_kind = None
    if exp_kind:
      # outside the property: model/implementation correspondence only
      if got != ("E", exp_kind):
        self.index_problems.append(("direct call %r: implementation answered %r, the model %s" % (
          kwargs, got, exp_kind), len(self.steps) - 1))
      elif exp_kind == "KeyError" and self.tracer is not None:
        # the model's machine answers KeyError for a lookup naming an unknown sort column
        cid = "#lookup#" + ":".join(sorted(keys))
        for s in self.tracer.sessions:
          if s.col_id == cid and s.dead is None and all(s2 == "p" for s2 in s.kinds):
            s.sync()
            try:
              tab = Table(self.doc)
              kj = [cell_json(tab.convert_key(c, keys[c])) for c in sorted(keys)]
            except OutOfUniverse:
              break
            s.event(["lookup", kj, list(spec)], {"error": "KeyError"})
            break
    else:
      pr = {"kw": [(c, "p", c) for c in sorted(keys)],
            "order": (("sort_by", sort_by) if sort_by else (None if "order_by" not in kwargs else ("order_by", order_by))),
            "one": False}
      tab = Table(self.doc)
      bad = judge_probe_direct(tab, pr, keys, got)
      if bad:
        self.findings.append((bad[0], "direct call T.lookup_records(**%r): %s" % (kwargs, bad[1]), len(self.steps) - 1))
    self.after_step(check=False)

  def after_step(self, check=True):
    if self.tracer is not None:
      self.tracer.after_step()
    if not check:
      return
    doc = self.doc
    if "T" not in doc.engine.tables or "P" not in doc.engine.tables:
      return
    tab = Table(doc)
    ptbl = doc.engine.tables["P"]
    import objtypes
    si = len(self.steps) - 1
    for prow in self.p_ids():
      args = {}
      try:
        for pc in ("p", "q", "pr"):
          args[pc] = ptbl.get_column(pc).get_cell_value(prow)
        for src in self.xsrcs:
          args[src] = self.src_value(ptbl, prow, src, args)
      except Exception:
        continue
      for i, pr in enumerate(self.probes):
        raw = ptbl.get_column("f%d" % i).raw_get(prow)
        if isinstance(raw, objtypes.RaisedException):
          got = ("E", type(raw.error).__name__ if raw.error is not None else "?")
        else:
          got = list(raw) if isinstance(raw, (list, tuple)) else raw
        self.stats["probe_cells"] += 1
        if self.mixed:
          self.count_mixed(i, pr, prow, args, got)
        bad = judge_probe(tab, pr, args, got)
        if bad:
          bad = self.classify_stale(tab, pr, args, got, bad)
          self.findings.append((bad[0], "P[%d].f%d: %s" % (prow, i, bad[1]), si))
        if isinstance(got, list) and len(got) >= 2:
          self.stats["ordered_checks"] += 1
          if len(got) >= 3 and pr["order"] is not None:
            self.nontrivial.append(json.dumps([formula_text(pr), repr(args), got], default=str))
    import lookup
    for cid, c in doc.engine.tables["T"]._special_cols.items():
      if isinstance(c, lookup.LookupMapColumn):
        self.stats["index_checks"] += 1
        try:
          bad = judge_index(tab, c)
        except Exception as e:
          bad = None
        if bad:
          self.index_problems.append(("%s: %s" % (cid, bad), si))

  def src_value(self, ptbl, prow, src, base):
    """the value of a key source of the form '=<expression of the probing row>'"""
    import ast
    import records
    e = src[1:]
    if e == "rec":
      return ptbl.Record(prow, None)
    if e in ("$id", "rec.id"):
      return int(prow)
    if e == "$pr.id":
      v = base["pr"]
      if not isinstance(v, records.Record):
        raise ValueError("$pr is not a record")
      # `.id` of a reference to a REMOVED row is 0 (the id column of the target), not the stored number
      rtbl = self.doc.engine.tables[v._table.table_id]
      return int(v._row_id) if int(v._row_id) in set(int(x) for x in rtbl.row_ids) else 0
    return ast.literal_eval(e)

  def count_mixed(self, i, pr, prow, args, got):
    """input distribution of the mixed-key stream (evidence counters)"""
    import records
    nc, ne, ref, anyl = self.pclass[i]
    if not nc:
      return
    st = self.stats
    nonempty = (isinstance(got, list) and len(got) > 0) or \
               (isinstance(got, int) and not isinstance(got, bool) and got != 0)
    st["mx_probe_cells"] += 1
    if pr["one"]:
      st["mx_lookupOne_cells"] += 1
    if pr["order"] is not None:
      st["mx_ordered_cells"] += 1
    if any(isinstance(args[src], records.Record) for (_, _, src) in pr["kw"]):
      st["mx_record_key_cells"] += 1
    if any(src in ("=$id", "=rec.id", "=$pr.id") for (_, _, src) in pr["kw"]):
      st["mx_rowid_key_cells"] += 1
    if anyl:
      st["mx_anylist_cells"] += 1
      st["mx_anylist_nonempty"] += 1 if nonempty else 0
    if nc and ne:
      st["mx_combined_cells"] += 1
      st["mx_combined_nonempty"] += 1 if nonempty else 0
      if ref:
        st["mx_combined_ref_eq_cells"] += 1
        st["mx_combined_ref_eq_nonempty"] += 1 if nonempty else 0
      prev = self.prev_got.get((prow, i))
      if prev is not None and prev != got:
        st["mx_result_changed_after_edit"] += 1
      self.prev_got[(prow, i)] = got

  STALE_SIG = ("stored lookup result is stale after a type change of the looked-up key column made while "
               "the looked-up table was empty (the same call evaluated afresh returns the documented rows)")

  def classify_stale(self, tab, pr, args, got, bad):
    """A probe cell violates the property.  If the key column's type was changed earlier in the
    history while T had no rows, and the very same call, evaluated afresh on the current engine,
    satisfies the property, the defect is the missing re-evaluation (the key conversion depends on
    the column type; with no rows to invalidate nothing re-runs the formula), not the lookup
    itself: it gets its own signature."""
    if not self.type_changed:
      return bad
    import lookup
    kw = {}
    for (tcol, kind, pcol) in pr["kw"]:
      if kind == "p":
        kw[tcol] = args[pcol]
      elif kind == "c":
        kw[tcol] = lookup._Contains(args[pcol], lookup._Contains.no_match_empty)
      else:
        kw[tcol] = lookup._Contains(args[pcol], kind[1])
    if pr["order"] is not None:
      kw[pr["order"][0]] = pr["order"][1]
    tbl = self.doc.engine.tables["T"]
    SINK.active = self.tracer      # the fresh call is a lookup event of the traced columns like any other
    try:
      try:
        rs = tbl.lookup_records(**kw)
        fresh = int(rs.get_one()._row_id) if pr["one"] else [int(x) for x in rs._row_ids]
      except Exception as e:
        fresh = ("E", type(e).__name__)
    finally:
      SINK.active = None
    if fresh != got and judge_probe(tab, pr, args, fresh) is None:
      return (self.STALE_SIG, "%s; stored %r, fresh evaluation %r (column k is now %s)" % (
        bad[1], got, fresh, self.cur_ktype()))
    return bad

  def cur_ktype(self):
    try:
      return self.doc.engine.tables["T"].get_column("k").type_obj.typename()
    except Exception:
      return self.ktype

  # -- generation
  def gen_k(self, rng, raw=False):
    t = self.cur_ktype()
    if raw:
      return rng.choice([0, 1, 2, "x", "1", None, 2.5, True, 1.0, ""])
    if t == "Int":
      return rng.choice([0, 1, 2, 3, 1, 2, None, "x", "y", "", True, 2.0, "2", 7])
    if t == "Text":
      return rng.choice(["a", "b", "", "1", "2", None, 1, 2.5, True, "x"])
    if t == "Numeric":
      return rng.choice([0, 1, 2, 1.5, 2.5, None, "x", "1", True, 3])
    if t == "Bool":
      return rng.choice([True, False, None, 0, 1, "x", "true", "", 2])
    return rng.choice([0, 1, 2, "a", "1", None, True, 1.0, 2.5, ["L", 1, 2], "x", False])

  def gen_cell(self, rng, c, raw=False):
    if self.mixed and not raw and rng.random() < 0.6:
      # concentrated values: lookups with 2-3 keys must find rows often
      if c == "r":
        return rng.choice([1, 2, 1, 2, 3])
      if c == "tags":
        return rng.choice([["L", "a"], ["L", "a", "b"], ["L", "b"], ["L", "b", "a", "b"], None])
      if c == "rl":
        return rng.choice([["L", 1], ["L", 1, 2], ["L", 2], ["L", 2, 1, 2], None])
      if c == "anyc":
        return rng.choice([["L", 1, "a"], ["L", "a", "b"], ["L", 2, 1], None, ["L"]])
      if c == "k2":
        return rng.choice(["a", "b", "a"])
    if c == "k":
      return self.gen_k(rng, raw)
    if c == "k2":
      return rng.choice(["a", "b", "", "1", None, "a", "b"] + ([1] if raw else []))
    if c == "r":
      return rng.choice([0, 1, 2, 3, 4, 1, 2, "x"])
    if c == "tags":
      return rng.choice([None, ["L"], ["L", "a"], ["L", "a", "b"], ["L", "b", "a", "b"], "zz", ["L", ""],
                         ["L", "x", "1"], ["L", "a"], ""])
    if c == "rl":
      return rng.choice([None, ["L", 1], ["L", 1, 2], ["L", 3, 3], ["L", 2, 4], ["L"], ["L", 1]] +
                        (["alt", ["L", 2, 1, 2]] if self.mixed else []))
    if c == "anyc":
      return rng.choice([None, 0, False, "", "ab", ["L"], ["L", 1, "a"], ["L", 1, True, 1.0], 5, ["L", None],
                         ["L", "a", "b"], ["L", 0], ["L", 2, 1], True, 1])
    if c == "own":
      return rng.choice([0, 1, 2, 3, 1, 2, "zz", 1, 2, 3])
    if c == "b":
      return rng.choice([True, False, None, "x", True, False, 1, True])
    if c == "ch":
      return rng.choice(["a", "b", "", None, "a", "x", "a", "b"])
    if c == "n":
      return rng.choice([0, 1, 2, 1, 2, 3, None, "x", 1, 2])
    if c == "s1":
      if self.cfg.get("mixed_sort"):
        # (2.5 is outside the model's sort universe: it would drop every session of the history)
        return rng.choice([0, 1, 2, 3, 4, 5, 1, 2, None, "a", True, "b"] + ([] if self.mixed else [2.5]))
      return rng.choice([0, 1, 2, 3, 4, 5, 1, 2, 3, True])
    if c == "s2":
      return rng.choice(["a", "b", "c", "", "B", "a", "b"] + ([None] if self.cfg.get("mixed_sort") else []))
    if c == "manualSort":
      return rng.choice([1, 2, 3, 4, 5, 6, 7, 8, 9, 0, -1, 2.5, 10])
    raise KeyError(c)

  KEYCOLS = ["k", "k2", "r", "tags", "rl", "anyc"]
  SORTC = ["s1", "s2", "manualSort"]

  def gen_cols(self, rng, n, which):
    return {c: [self.gen_cell(rng, c) for _ in range(n)] for c in which}

  def gen_step(self, rng):
    tids, pids = self.t_ids(), self.p_ids()
    w = [("addT", 5 if len(tids) < 7 else 1), ("updKey", 6 if tids else 0), ("updSort", 5 if tids else 0),
         ("updBoth", 3 if tids else 0), ("remT", 3 if len(tids) > 1 else 0), ("replaceT", 1), ("typeK", 1.5),
         ("undo", 2.5 if self.last is not None else 0), ("updP", 4 if pids else 0),
         ("addP", 3 if len(pids) < 5 else 0.3), ("remP", 0.7 if len(pids) > 2 else 0),
         ("remR", 0.5), ("addR", 0.3), ("rawKey", 1.2 if tids else 0),
         ("direct", 1.5 if self.cfg.get("direct") else 0)]
    if self.mixed and tids:
      w += [("mx_moveRef", 4), ("mx_listFlip", 4), ("mx_emptyList", 1.5), ("mx_moveList", 3),
            ("mx_swap", 1.5 if len(tids) > 1 else 0), ("mx_renameR", 1.2), ("mx_both", 2)]
    kind = rng.choices([k for k, _ in w], [x for _, x in w])[0]
    if kind.startswith("mx_"):
      return self.gen_mixed_step(rng, kind, tids)
    if kind == "addT":
      n = rng.choice([1, 1, 2, 3])
      ids = [None] * n
      if rng.random() < 0.3:
        free = [i for i in range(1, 14) if i not in tids]
        if len(free) >= n:
          ids = sorted(rng.sample(free, n))
      which = [c for c in self.KEYCOLS + ["s1", "s2"] if rng.random() < 0.85]
      if rng.random() < 0.25:
        which.append("manualSort")
      cols = self.gen_cols(rng, n, which)
      if n == 1 and rng.random() < 0.5:
        return self.apply([["AddRecord", "T", ids[0], {c: v[0] for c, v in cols.items()}]], kind)
      return self.apply([["BulkAddRecord", "T", ids, cols]], kind)
    if kind in ("updKey", "updSort", "updBoth", "rawKey"):
      n = min(len(tids), rng.choice([1, 1, 1, 2, 3]))
      rows = sorted(rng.sample(tids, n))
      if kind in ("updKey", "rawKey"):
        which = rng.sample(self.KEYCOLS, rng.choice([1, 1, 2]))
      elif kind == "updSort":
        which = rng.sample(self.SORTC, rng.choice([1, 1, 2]))
      else:
        which = rng.sample(self.KEYCOLS, 1) + rng.sample(self.SORTC, 1)
      if kind == "rawKey":
        which = [c for c in which if c in ("k", "k2")] or ["k"]
        cols = {c: [self.gen_cell(rng, c, raw=True) for _ in rows] for c in which}
        return self.apply([["ApplyDocActions", [["BulkUpdateRecord", "T", rows, cols]]]], kind)
      cols = self.gen_cols(rng, n, which)
      acts = []
      if n == 1:
        acts.append(["UpdateRecord", "T", rows[0], {c: v[0] for c, v in cols.items()}])
      else:
        acts.append(["BulkUpdateRecord", "T", rows, cols])
      if rng.random() < 0.25 and tids:
        # a second action in the same bundle
        r2 = rng.choice(tids)
        c2 = rng.choice(self.KEYCOLS + self.SORTC)
        acts.append(["UpdateRecord", "T", r2, {c2: self.gen_cell(rng, c2)}])
      return self.apply(acts, kind)
    if kind == "remT":
      n = min(len(tids) - 1, rng.choice([1, 1, 2]))
      rows = sorted(rng.sample(tids, n))
      if n == 1:
        return self.apply([["RemoveRecord", "T", rows[0]]], kind)
      return self.apply([["BulkRemoveRecord", "T", rows]], kind)
    if kind == "replaceT":
      n = rng.choice([0, 2, 3, 4, 5])
      ids = sorted(rng.sample(range(1, 12), n))
      cols = self.gen_cols(rng, n, self.KEYCOLS + ["s1", "s2", "manualSort"])
      return self.apply([["ReplaceTableData", "T", ids, cols]], kind)
    if kind == "typeK":
      nt = rng.choice([t for t in KTYPES if t != self.cur_ktype()])
      return self.apply([["ModifyColumn", "T", "k", {"type": nt}]], kind)
    if kind == "undo":
      return self.apply([["ApplyUndoActions", self.last.raw_undo]], kind)
    if kind == "updP":
      row = rng.choice(pids)
      vals = {}
      for c in rng.sample(["p", "q", "pr"], rng.choice([1, 1, 2])):
        vals[c] = self.gen_p(rng, c)
      if self.mixed:
        vals = self.gen_p_row(rng, tuple(sorted(vals)) if rng.random() < 0.5 else ("p", "q", "pr"))
      return self.apply([["UpdateRecord", "P", row, vals]], kind)
    if kind == "addP":
      if self.mixed:
        return self.apply([["AddRecord", "P", None, self.gen_p_row(rng)]], kind)
      return self.apply([["AddRecord", "P", None, {c: self.gen_p(rng, c) for c in ("p", "q", "pr")}]], kind)
    if kind == "remP":
      return self.apply([["RemoveRecord", "P", rng.choice(pids)]], kind)
    if kind == "remR":
      rids = self.r_ids()
      if len(rids) <= 1:
        return None
      return self.apply([["RemoveRecord", "R", rng.choice(rids)]], kind)
    if kind == "addR":
      return self.apply([["AddRecord", "R", None, {"name": "n"}]], kind)
    if kind == "direct":
      return self.direct(self.gen_direct(rng))
    raise KeyError(kind)

  MX_LISTS = {"tags": [["L", "a"], ["L", "a", "b"], ["L", "b", "b", "a"], ["L", "x"], ["L", "b"]],
              "rl": [["L", 1], ["L", 1, 2], ["L", 2, 2], ["L", 3, 4], ["L", 2]],
              "anyc": [["L", 1, "a"], ["L", "a", "b"], ["L", 2, 1], ["L", 1, 1], ["L", "b", 2]]}
  MX_SCALARS = {"tags": ["zz", "", "a"], "rl": ["alt", "1"], "anyc": [5, "ab", 0, "a", True]}

  def raw_cell(self, c, row):
    """the stored value of T[row].c in the form user actions take"""
    v = self.doc.engine.tables["T"].get_column(c).raw_get(row)
    if isinstance(v, (list, tuple)):
      return ["L"] + list(v)
    return v

  def gen_mixed_step(self, rng, kind, tids):
    """EDITS of cells under a combined index: the row has to leave its old keys and enter the new ones"""
    row = rng.choice(tids)
    if kind == "mx_moveRef":        # move a row to another Ref key, its list cells stay
      c = rng.choice(["r", "own", "r", "own", "n"])
      cur = self.raw_cell(c, row)
      new = rng.choice([x for x in [1, 2, 3, 4, 1, 2, 0, "x"] if x != cur])
      return self.apply([["UpdateRecord", "T", row, {c: new}]], kind)
    if kind in ("mx_listFlip", "mx_emptyList", "mx_moveList"):
      c = rng.choice(["tags", "rl", "anyc", "tags", "rl"])
      cur = self.raw_cell(c, row)
      if kind == "mx_emptyList":
        new = rng.choice([None, ["L"]])
      elif kind == "mx_moveList":     # other elements / duplicates
        new = rng.choice([x for x in self.MX_LISTS[c] if x != cur])
      elif isinstance(cur, list) and len(cur) > 1:
        new = rng.choice(self.MX_SCALARS[c])       # list -> non-list value
      else:
        new = rng.choice(self.MX_LISTS[c])         # non-list / empty -> list
        kind = "mx_listBack"
      return self.apply([["UpdateRecord", "T", row, {c: new}]], kind)
    if kind == "mx_swap":           # two rows exchange their (Ref key, list cell) in one action
      r2 = rng.choice([x for x in tids if x != row])
      cols = rng.choice([["r", "tags"], ["own", "rl"], ["r", "rl"], ["own", "tags"], ["r", "own", "tags", "rl"]])
      rows = sorted([row, r2])
      vals = {c: [self.raw_cell(c, rows[1]), self.raw_cell(c, rows[0])] for c in cols}
      return self.apply([["BulkUpdateRecord", "T", rows, vals]], kind)
    if kind == "mx_renameR":        # the Any formula columns follow R.name / k2
      if rng.random() < 0.5:
        rids = self.r_ids()
        if rids:
          return self.apply([["UpdateRecord", "R", rng.choice(rids), {"name": rng.choice(["a", "b", "c", ""])}]], kind)
      return self.apply([["UpdateRecord", "T", row, {"k2": rng.choice(["a", "b", "c", "", None])}]], kind)
    if kind == "mx_both":           # Ref key, list cell and a sort cell of one row in one bundle
      c1, c2 = rng.choice(["r", "own"]), rng.choice(["tags", "rl"])
      acts = [["UpdateRecord", "T", row, {c1: rng.choice([1, 2, 3, 0]), c2: rng.choice(self.MX_LISTS[c2] + self.MX_SCALARS[c2]),
                                          "s1": self.gen_cell(rng, "s1")}]]
      if rng.random() < 0.4:
        acts.append(["UpdateRecord", "T", rng.choice(tids), {c2: rng.choice(self.MX_LISTS[c2] + [None])}])
      return self.apply(acts, kind)
    raise KeyError(kind)

  def run_script(self, steps):
    """a scripted history: [(kind, bundle)]; bundle None = undo of the last successful bundle"""
    self.setup()
    for (kind, bundle) in steps:
      if bundle is None:
        if self.last is not None:
          self.apply([["ApplyUndoActions", self.last.raw_undo]], "undo")
        continue
      self.apply(bundle, kind)

  def gen_p_row(self, rng, cols=("p", "q", "pr")):
    """cells of a probing row; in a mixed history often DERIVED from one row of T (p = an element of
    its list cells, pr = its Ref key, q = one of its Int / Text keys) so that multi-key lookups hit"""
    vals = {c: self.gen_p(rng, c) for c in cols}
    tids = self.t_ids() if self.mixed else []
    if tids and rng.random() < 0.6:
      try:
        tab = Table(self.doc)
        row = rng.choice(tids)
        els = [x for c in ("tags", "anyc") for x in (tab.cell(c, row) if is_list(tab.cell(c, row)) else [])
               if isinstance(x, (str, int)) and not isinstance(x, bool)]
        if "p" in vals and els:
          vals["p"] = rng.choice(els)
        r = tab.cell("r", row)
        if "pr" in vals and isinstance(r, int) and not isinstance(r, bool):
          vals["pr"] = r
        qs = [x for x in (tab.cell("n", row), tab.cell("k2", row)) if isinstance(x, (str, int)) and not isinstance(x, bool)]
        if "q" in vals and qs:
          vals["q"] = rng.choice(qs)
      except Exception:
        pass
    return vals

  def gen_p(self, rng, c):
    if c == "p":
      present = []
      try:
        tab = Table(self.doc)
        for r in tab.ids:
          for tc in ("k", "tags", "anyc"):
            v = tab.cell(tc, r)
            for x in (v if is_list(v) else [v]):
              if x is None or isinstance(x, (bool, int, float, str)):
                present.append(x)
      except Exception:
        pass
      if present and rng.random() < 0.55:
        return rng.choice(present)
      if rng.random() < 0.03:
        return ["L", 1]
      return rng.choice(POOL_P)
    if c == "q":
      return rng.choice(POOL_Q + ([1, 2, 1, 2, 3] if self.mixed else []))
    return rng.choice([0, 1, 2, 3, 4, 1, 2])

  def gen_direct(self, rng):
    kw = {}
    if rng.random() < 0.8:
      kw["k"] = rng.choice(POOL_P + [[1, 2]])
    if rng.random() < 0.3:
      kw["k2"] = rng.choice(["a", "b", "", None])
    r = rng.random()
    if r < 0.25:
      kw["order_by"] = rng.choice(["zz", "-nosuch", ("s1", "zz"), ("s1", "id", "zz")])
    elif r < 0.4:
      kw["order_by"] = rng.choice([5, ["s1"], 1.5, True])
    elif r < 0.5:
      kw["sort_by"] = rng.choice([5, ("s1",), True, ["s1"]])
    elif r < 0.6:
      kw["sort_by"] = rng.choice(["s1", "-s2", "", "zz"])
      if rng.random() < 0.5:
        kw["order_by"] = rng.choice(["s2", None, 5])
    else:
      kw["order_by"] = rng.choice(["s1", "-s1", None, "id", ("s2", "-s1"), (), ("-s2",), ("s1", "manualSort"),
                                   ("-manualSort",), ("id", "zz"), "-id", ("s2", "id", "s1")])
    return kw

  def run(self, rng, n_steps):
    self.setup()
    # initial content
    n = rng.choice([2, 3, 4, 5])
    self.apply([["BulkAddRecord", "T", [None] * n, self.gen_cols(rng, n, self.KEYCOLS + ["s1", "s2"])]], "addT")
    m = rng.choice([2, 3, 4])
    if self.mixed:
      rows = [self.gen_p_row(rng) for _ in range(m)]
      self.apply([["BulkAddRecord", "P", [None] * m, {c: [x[c] for x in rows] for c in ("p", "q", "pr")}]], "addP")
    else:
      self.apply([["BulkAddRecord", "P", [None] * m, {c: [self.gen_p(rng, c) for _ in range(m)] for c in ("p", "q", "pr")}]], "addP")
    for _ in range(n_steps):
      self.gen_step(rng)

  def replay_steps(self, steps):
    self.setup()
    for st in steps:
      if st[0] == "apply":
        self.apply(st[1], "replay")
      else:
        self.direct(dec_kwargs(st[1]))

  # -- model
  def model_ops(self):
    return [s for s in (self.tracer.sessions if self.tracer else []) if s.events]


def judge_probe_direct(tab, pr, keys, got):
  return judge_probe(tab, pr, keys, got)


def enc_kwargs(kw):
  def enc(v):
    if isinstance(v, tuple):
      return {"t": [enc(x) for x in v]}
    if isinstance(v, list):
      return {"l": [enc(x) for x in v]}
    return v
  return {k: enc(v) for k, v in kw.items()}


def dec_kwargs(kw):
  def dec(v):
    if isinstance(v, dict) and "t" in v:
      return tuple(dec(x) for x in v["t"])
    if isinstance(v, dict) and "l" in v:
      return [dec(x) for x in v["l"]]
    return v
  return {k: dec(v) for k, v in kw.items()}


def make_cfg(rng, i):
  probes = list(range(len(PROBES)))
  # every history gets the default-order and one-key probes plus a random selection of the others
  keep = [0, 2, 4, 7, 10, 11] + rng.sample([x for x in probes if x not in (0, 2, 4, 7, 10, 11)], 8)
  return {"ktype": rng.choice(KTYPES + ["Int", "Any"]), "probes": sorted(keep),
          "mixed_sort": rng.random() < 0.3, "direct": rng.random() < 0.35}


MIXED_CLASSIC = [0, 10, 12, 21]     # classic probes kept in a mixed history


def make_cfg_mixed(rng):
  xp, seen = [], set()
  for pr in MIXED_FIXED + [gen_mixed_probe(rng) for _ in range(14)]:
    t = formula_text(pr)
    if t not in seen and len(xp) < len(MIXED_FIXED) + 8:
      seen.add(t)
      xp.append(pr)
  return {"ktype": rng.choice(KTYPES + ["Int", "Any"]), "probes": list(MIXED_CLASSIC), "xprobes": xp, "mixed": True,
          "arecs": rng.randrange(len(AREC_FORMULAS)), "aints": rng.randrange(len(AINT_FORMULAS)),
          "mixed_sort": rng.random() < 0.2, "direct": False}


def euler_pairs(n):
  """a closed walk over the states 0..n-1 that uses every ordered pair (a, b), a == b included,
  exactly once as consecutive states (Hierholzer on the complete digraph with loops)"""
  nxt = [0] * n
  stack, out = [0], []
  while stack:
    v = stack[-1]
    if nxt[v] < n:
      nxt[v] += 1
      stack.append(nxt[v] - 1)
    else:
      out.append(stack.pop())
  out.reverse()
  return out


def trans_family(variant, thorough):
  """EXHAUSTIVE small scope: one row of T walks through EVERY ordered pair (state before, state
  after) of (Ref key, list cell) states, next to two constant rows; after every single edit every
  combined probe of four probing rows is judged (the row must have left exactly its old keys)."""
  refs = [1, 2, "x"] + ([0] if thorough else [])
  lists = [None, ["a"], ["a", "b"], "zz"] + ([["b", "b"], []] if thorough else [])
  states = [(r, l) for r in refs for l in lists]
  def enc(l, m=None):
    if isinstance(l, list):
      return ["L"] + [(m[x] if m else x) for x in l]
    return ("alt" if (m and l == "zz") else l)
  def bundle(st):
    r, l = st
    return [["UpdateRecord", "T", 1, {"r": r, "own": r, "tags": enc(l), "rl": enc(l, {"a": 1, "b": 2}),
                                      "b": r == 1, "n": r if isinstance(r, int) else None}]]
  xp = [
    _pr([("r", "p", "pr"), ("tags", "c", "p")]),
    _pr([("own", "p", "=$pr.id"), ("tags", "c", "p")], ("order_by", "-s1")),
    _pr([("own", "p", "=rec"), ("rl", "c", "pr")]),
    _pr([("r", "p", "=$pr.id"), ("rl", "c", "pr")], ("order_by", "s1"), one=True),
    _pr([("arecs", "c", "pr"), ("b", "p", "=True")]),
    _pr([("aints", "c", "=$pr.id"), ("r", "p", "pr")], None, one=bool(variant)),
    _pr([("r", "p", "pr"), ("tags", ("c", "a"), "p")], ("order_by", ("s2", "-s1"))),
    _pr([("n", "p", "q"), ("own", "p", "=$id"), ("tags", "c", "='a'")]),
    _pr([("arecs", "c", "=$pr.id")], ("order_by", "-s1"), one=not variant),
  ]
  cfg = {"ktype": "Int", "probes": [10], "xprobes": xp, "mixed": True, "mixed_sort": False, "direct": False,
         "arecs": [0, 2, 4][variant % 3], "aints": [2, 1, 0][variant % 3]}
  steps = [("addP", [["BulkAddRecord", "P", [None] * 4, {"p": ["a", "a", "b", "b"], "q": [1, 2, 1, 2], "pr": [1, 2, 1, 2]}]]),
           ("addT", [["BulkAddRecord", "T", [None] * 3,
                      {"r": [1, 1, 2], "own": [1, 1, 2], "tags": [None, ["L", "a", "b"], ["L", "a"]],
                       "rl": [None, ["L", 1, 2], ["L", 1]], "b": [True, True, False], "n": [1, 1, 2],
                       "k2": ["a", "b", ""], "s1": [3, 5, 1], "s2": ["a", "b", "a"]}]])]
  for i in euler_pairs(len(states)):
    steps.append(("mx_transition", bundle(states[i])))
  return cfg, steps


def fixed_witness():
  """The shapes of the coverage gap as a fixed, scripted history (Tasks = T, People = P): combined
  CONTAINS + Ref-equality lookups, then every kind of edit of the indexed cells."""
  cfg = {"ktype": "Int", "probes": [10, 12], "xprobes": list(MIXED_FIXED), "mixed": True, "mixed_sort": False,
         "direct": False, "arecs": 0, "aints": 2}
  L = lambda *x: ["L"] + list(x)
  steps = [
    ("addP", [["BulkAddRecord", "P", [None] * 3, {"p": ["a", "b", "a"], "q": [1, 2, 3], "pr": [1, 2, 3]}]]),
    ("addT", [["BulkAddRecord", "T", [None] * 5,
               {"own": [1, 1, 2, 0, 2], "r": [1, 2, 1, 3, "x"], "tags": [L("a"), L("a", "b"), L("b"), None, "zz"],
                "rl": [L(1, 2), L(2), None, L(3, 3), "alt"], "n": [1, 1, 2, 3, None], "b": [True, False, True, True, None],
                "ch": ["a", "b", "a", "", None], "k2": ["a", "b", "a", "", None], "s1": [3, 1, 2, 5, 4],
                "s2": ["a", "b", "a", "c", ""]}]]),
    ("mx_moveRef", [["UpdateRecord", "T", 1, {"own": 2}]]),                 # a row moves between owners
    ("mx_moveRef", [["UpdateRecord", "T", 2, {"r": 1}]]),                   # the Ref key changes
    ("mx_listFlip", [["UpdateRecord", "T", 1, {"tags": "zz"}]]),            # list cell -> non-list value
    ("mx_listBack", [["UpdateRecord", "T", 1, {"tags": L("a", "b")}]]),     # ... and back
    ("mx_listFlip", [["UpdateRecord", "T", 1, {"rl": "alt"}]]),
    ("mx_listBack", [["UpdateRecord", "T", 1, {"rl": L(1)}]]),
    ("mx_emptyList", [["UpdateRecord", "T", 2, {"tags": None}]]),
    ("mx_moveList", [["UpdateRecord", "T", 2, {"tags": L("a", "a")}]]),     # duplicates
    ("mx_swap", [["BulkUpdateRecord", "T", [1, 3], {"own": [2, 2], "tags": [L("b"), L("a", "b")]}]]),
    ("mx_renameR", [["UpdateRecord", "R", 2, {"name": "a"}]]),              # arecs = [$r,$r]+R.lookupRecords(name=$k2)
    ("mx_renameR", [["UpdateRecord", "T", 4, {"k2": "a"}]]),
    ("updP", [["UpdateRecord", "P", 3, {"pr": 1, "p": "b"}]]),
    ("remR", [["RemoveRecord", "R", 1]]),                                   # references to R[1] are cleaned
    ("undo", None),
    ("mx_both", [["UpdateRecord", "T", 5, {"r": 1, "own": 1, "tags": L("a"), "rl": L(1, 1), "s1": 9}]]),
    ("remT", [["RemoveRecord", "T", 1]]),
    ("undo", None),
    ("remP", [["RemoveRecord", "P", 2]]),                                   # T.own references to P[2] are cleaned
    ("replaceT", [["ReplaceTableData", "T", [2, 7], {"own": [1, 1], "r": [1, 1], "tags": [L("a"), L("b", "a")],
                                                     "rl": [L(1), None], "s1": [1, 2]}]]),
  ]
  return cfg, steps


def fixed_witness_unhashable():
  """A scripted classic history on an Any key column: cells of INDEXED rows go from a hashable key to an unhashable
  one (a list, a dict) and back, singly and in bulk, next to ordinary key changes; after every edit every probe is
  judged (a row whose key became unhashable must have left its old key: membership, order, lookupOne)."""
  cfg = {"ktype": "Any", "probes": [0, 2, 4, 7, 10, 11, 1, 3, 5, 6], "mixed_sort": False, "direct": False}
  L = lambda *x: ["L"] + list(x)
  steps = [
    ("addP", [["BulkAddRecord", "P", [None] * 4, {"p": [1, 2, "a", 1], "q": ["a", "b", "a", "b"], "pr": [1, 2, 1, 0]}]]),
    ("addT", [["BulkAddRecord", "T", [None] * 5, {"k": [1, 2, 1, "a", 2], "k2": ["a", "b", "a", "b", "a"], "r": [1, 2, 1, 0, 2],
                                                  "s1": [3, 1, 2, 5, 4], "s2": ["a", "b", "a", "c", ""]}]]),
    ("unh_toList", [["UpdateRecord", "T", 1, {"k": L(1, 2)}]]),          # hashable -> list
    ("unh_toList", [["UpdateRecord", "T", 2, {"k": L()}]]),
    ("unh_back", [["UpdateRecord", "T", 1, {"k": 2}]]),                  # ... and back to another scalar
    ("unh_toDict", [["UpdateRecord", "T", 3, {"k": ["O", {"a": 1}]}]]),  # hashable -> dict
    ("unh_bulk", [["BulkUpdateRecord", "T", [4, 5], {"k": [L("a"), 1]}]]),
    ("undo", None),
    ("unh_back", [["BulkUpdateRecord", "T", [2, 3], {"k": [1, 1]}]]),
    ("unh_toList", [["UpdateRecord", "T", 2, {"k": L(1), "s1": 9}]]),    # with a sort-key change in the same action
    ("unh_swap", [["BulkUpdateRecord", "T", [1, 2], {"k": [L(2), 2]}]]),
    ("remT", [["RemoveRecord", "T", 1]]),
    ("undo", None),
    ("unh_back", [["UpdateRecord", "T", 1, {"k": "a"}]]),
  ]
  return cfg, steps


def build_history(pid, job, n_steps, thorough):
  """job: int = a classic random history; ("mixed", n) = a random mixed-key history;
  ("trans", v) = exhaustive (Ref key, list cell) transitions; ("fixed", 0) = the scripted witness"""
  if isinstance(job, int):
    rng = random.Random("%s/hist/%s" % (pid, job))
    h = History(make_cfg(rng, job))
    h.run(rng, n_steps)
  elif job[0] == "mixed":
    rng = random.Random("%s/mixed/%s" % (pid, job[1]))
    h = History(make_cfg_mixed(rng))
    h.run(rng, n_steps)
  elif job[0] == "trans":
    cfg, steps = trans_family(job[1], thorough)
    h = History(cfg)
    h.run_script(steps)
  elif job[1] == 1:
    cfg, steps = fixed_witness_unhashable()
    h = History(cfg)
    h.run_script(steps)
  else:
    cfg, steps = fixed_witness()
    h = History(cfg)
    h.run_script(steps)
  return h


def run_driver(ops):
  if not ops:
    return []
  data = "\n".join(json.dumps(o, separators=(",", ":")) for o in ops) + "\n"
  p = subprocess.run([common.DRIVER], input=data, stdout=subprocess.PIPE, stderr=subprocess.PIPE,
                     text=True, timeout=3000)
  lines = p.stdout.splitlines()
  if p.returncode != 0 or len(lines) != len(ops):
    raise common.Infra("driver rc=%s answered %d/%d: %s" % (p.returncode, len(lines), len(ops), p.stderr[-300:]))
  return [json.loads(x) for x in lines]


def protocol_violation(events, expects):
  """Index of the first event that breaks the ordering assumption of `sorted_cache_valid`
  (Lean `Ev.allowed`): key cells of a row written again between a `_reset_sorted_versions` for that
  row that ran while its `update_record` was pending and that `update_record`.  None if respected."""
  dirty, seen, known = set(), set(), set()
  for i, (ev, ex) in enumerate(zip(events, expects)):
    k = ev[0]
    if k == "setKey":
      if ev[1] in seen:
        return i
      dirty.add(ev[1]); known.add(ev[1])
    elif k == "setSort":
      if ev[1] not in known:
        dirty.add(ev[1]); known.add(ev[1])
    elif k == "deliverKey":
      if ev[1] in known:
        dirty.discard(ev[1]); seen.discard(ev[1])
    elif k == "deliverSort":
      if ev[1] in known and ev[1] in dirty and not (isinstance(ex, dict) and "error" in ex):
        seen.add(ev[1])
    elif k == "unset":
      dirty.discard(ev[1]); seen.discard(ev[1]); known.discard(ev[1])
  return None


def compare_sessions(hist_list):
  """Run the model on every recorded session; returns (mismatches, counters)."""
  sess = []
  for (hi, h) in hist_list:
    for s in h.model_ops():
      sess.append((hi, h, s))
  answers = run_driver([s.op() for (_, _, s) in sess])
  mism = []
  cnt = {"sessions": 0, "events": 0, "lookups": 0, "dumps": 0, "sessions_left_universe": 0,
         "ordering_assumption_violations": 0,
         "lookups_answered_from_cache": sum(h.tracer.cache_hits for (_, h) in hist_list)}
  cnt["sessions_combined_contains_and_exact"] = 0
  cnt["sessions_combined_with_ref_exact"] = 0
  cnt["sessions_formula_key_columns"] = 0
  cnt["lookups_combined"] = 0
  for (hi, h, s), ans in zip(sess, answers):
    cnt["sessions"] += 1
    combined = any(k == "p" for k in s.kinds) and any(k != "p" for k in s.kinds)
    if combined:
      cnt["sessions_combined_contains_and_exact"] += 1
      cnt["lookups_combined"] += sum(1 for ev in s.events if ev[0] == "lookup")
      if any(k == "p" and c in ("r", "own") for k, c in zip(s.kinds, s.keycols)):
        cnt["sessions_combined_with_ref_exact"] += 1
    if s.formula_keys:
      cnt["sessions_formula_key_columns"] += 1
    pv = protocol_violation(s.events, s.expect)
    if pv is not None:
      cnt["ordering_assumption_violations"] += 1
      mism.append((hi, h, s, pv, "ASSUMPTION: session %s event %d %r writes key cells of a row between its "
                   "_reset_sorted_versions and its pending update_record (Lean Ev.allowed violated by the "
                   "real engine)" % (s.col_id, pv, s.events[pv])))
    if s.dead and s.dead not in ("column discarded",):
      cnt["sessions_left_universe"] += 1
    if "results" not in ans:
      mism.append((hi, h, s, -1, "driver error %r" % (ans,)))
      continue
    res = ans["results"]
    for i, (ev, exp, got) in enumerate(zip(s.events, s.expect, res)):
      cnt["events"] += 1
      if ev[0] == "lookup":
        cnt["lookups"] += 1
      if ev[0] == "dump":
        cnt["dumps"] += 1
      if exp is None:
        continue
      g = canon_model_result(got)
      if exp != g:
        mism.append((hi, h, s, i, "session %s event %d %r: implementation %r model %r" % (
          s.col_id, i, ev, exp, g)))
        break
  return mism, cnt


def _work(args):
  (pid, seeds, n_steps, thorough) = args
  common.setup_repo_path()
  out = {"findings": [], "index": [], "mism": [], "stats": {}, "kinds": {}, "cnt": {}, "nontrivial": [],
         "samples": [], "infra": []}
  hs = []
  for seed in seeds:
    try:
      h = build_history(pid, seed, n_steps, thorough)
    except common.Infra:
      raise
    except Exception:
      import traceback
      out["infra"].append("seed %s: %s" % (seed, traceback.format_exc()[-1200:]))
      continue
    cfg = h.cfg
    hs.append((seed, h))
    if not isinstance(seed, int):
      out["stats"]["histories_" + seed[0]] = out["stats"].get("histories_" + seed[0], 0) + 1
      out["stats"]["mx_formula_key_order_errors"] = out["stats"].get("mx_formula_key_order_errors", 0) + h.tracer.order_errors
    if h.tracer.harness_errors:
      out["infra"].append("seed %s: %s" % (seed, h.tracer.harness_errors[0]))
    for (sig, detail, si) in h.findings:
      out["findings"].append((sig, detail, {"cfg": cfg, "steps": h.steps[:si + 1]}))
    for (detail, si) in h.index_problems:
      out["index"].append((detail, {"cfg": cfg, "steps": h.steps[:si + 1]}))
    for k, v in h.stats.items():
      out["stats"][k] = out["stats"].get(k, 0) + v
    for k, v in h.kinds.items():
      out["kinds"][k] = out["kinds"].get(k, 0) + v
    out["nontrivial"] += h.nontrivial
    if len(out["samples"]) < 2 and h.nontrivial:
      out["samples"].append({"cfg": cfg, "steps": h.steps[:4], "a_probe": json.loads(h.nontrivial[0])})
  try:
    mism, cnt = compare_sessions(hs)
  except common.Infra as e:
    out["infra"].append(str(e))
    mism, cnt = [], {}
  out["cnt"] = cnt
  for (hi, h, s, i, detail) in mism:
    upto = s.bundle_of_event[i] if 0 <= i < len(s.bundle_of_event) else len(h.steps) - 1
    # setup bundles are not in h.steps: step numbers count raw after_step calls
    out["mism"].append((detail, {"cfg": h.cfg, "steps": h.steps, "session": s.col_id, "event_index": i}))
  return out


def run_histories(ck, n, n_steps, procs, n_mixed=0, n_trans=0):
  thorough = ck.tier == "thorough"
  seeds = [ck.seed * 100000 + i for i in range(n)]
  # the mixed-key stream: scripted witness, exhaustive transitions, random mixed histories (the
  # longest jobs first)
  seeds = [("trans", v) for v in range(n_trans)] + seeds
  seeds += [("mixed", ck.seed * 100000 + i) for i in range(n_mixed)] + ([("fixed", 0)] if n_mixed else []) + [("fixed", 1)]
  if procs <= 1:
    results = [_work((ck.pid, seeds, n_steps, thorough))]
  else:
    import multiprocessing
    chunks = [seeds[i::procs * 4] for i in range(procs * 4)]
    args = [(ck.pid, c, n_steps, thorough) for c in chunks if c]
    with multiprocessing.get_context("fork").Pool(procs) as pool:
      results = pool.map(_work, args, chunksize=1)
  infra = [x for r in results for x in r["infra"]]
  if infra:
    raise common.Infra("; ".join(infra)[:2000])
  return results


# ---------------------------------------------------------------------------------------------
# stream A: TwoWayMap

BINS = ["single", "strict", "set", "list", "lookupset"]


def real_bin(name):
  import twowaymap
  return {"single": "single", "strict": "strict", "set": set, "list": list, "lookupset": twowaymap.LookupSet}[name]


def dump_real_side(d, bt):
  out = []
  for k, v in d.items():
    if bt in ("single", "strict"):
      items = [v]
    elif bt == "list":
      items = list(v)
    else:
      items = sorted(v, key=lambda x: json.dumps(x))
    out.append([k, items])
  return sorted(out, key=lambda e: json.dumps(e[0]))


def dump_model_side(d, bt):
  out = []
  for k, items in d:
    if bt in ("set", "lookupset"):
      items = sorted(items, key=lambda x: json.dumps(x))
    out.append([k, items])
  return sorted(out, key=lambda e: json.dumps(e[0]))


def twm_inverse_problem(m, lt, rt):
  def items(v, bt):
    return [v] if bt in ("single", "strict") else list(v)
  f = set()
  for l, v in m._fwd.items():
    its = items(v, rt)
    for r in its:
      f.add((json.dumps(l), json.dumps(r)))
  b = set()
  for r, v in m._bwd.items():
    its = items(v, lt)
    for l in its:
      b.add((json.dumps(l), json.dumps(r)))
  if f != b:
    return "_fwd pairs %r, _bwd pairs %r" % (sorted(f - b)[:3], sorted(b - f)[:3])
  return None


def gen_twm_case(rng, quick_len=None):
  lt, rt = rng.choice(BINS), rng.choice(BINS)
  if rng.random() < 0.3:
    lt, rt = rng.choice([("lookupset", "single"), ("lookupset", "set"), ("set", "set")])
  n = quick_len or rng.choice([3, 5, 8, 12])
  lv = [1, 2, 3, 1, 2]
  rv = ["a", "b", "c", "a", "b"]
  if rng.random() < 0.3:
    rv = [1, 2, 3]        # same universe on both sides
  ops = []
  for _ in range(n):
    x = rng.random()
    l = rng.choice(lv) if rng.random() > 0.06 else [1, 2]
    r = rng.choice(rv) if rng.random() > 0.08 else [1]
    if x < 0.6:
      ops.append(["insert", l, r])
    elif x < 0.8:
      ops.append(["remove", l, r])
    elif x < 0.88:
      ops.append(["remove_left", l])
    elif x < 0.96:
      ops.append(["remove_right", r])
    else:
      ops.append(["clear"])
  return lt, rt, ops


def stream_twm(ck, n):
  import twowaymap
  cases = [gen_twm_case(ck.rng) for _ in range(n)]
  # exhaustive small scope: all op pairs over a tiny alphabet for every bin pair
  small_ops = [["insert", 1, "a"], ["insert", 1, "b"], ["insert", 2, "a"], ["remove", 1, "a"],
               ["remove_left", 1], ["remove_right", "a"], ["insert", 1, [1]], ["insert", [1], "a"]]
  for lt in BINS:
    for rt in BINS:
      for a in small_ops:
        for b in small_ops:
          for c in (small_ops if ck.tier == "thorough" else small_ops[:3]):
            cases.append((lt, rt, [a, b, c]))
  ops = [{"m": "lookup", "op": "twm", "left": lt, "right": rt, "ops": o} for (lt, rt, o) in cases]
  model = ck.driver(ops)
  mism = None
  for (lt, rt, seq), mo in zip(cases, model):
    m = twowaymap.TwoWayMap(left=real_bin(lt), right=real_bin(rt))
    ck.evaluated()
    ck.count("twm_cases")
    failing = False
    for i, op in enumerate(seq):
      err = None
      try:
        if op[0] == "insert":
          m.insert(copy.deepcopy(op[1]), copy.deepcopy(op[2]))
        elif op[0] == "remove":
          m.remove(copy.deepcopy(op[1]), copy.deepcopy(op[2]))
        elif op[0] == "remove_left":
          m.remove_left(copy.deepcopy(op[1]))
        elif op[0] == "remove_right":
          m.remove_right(copy.deepcopy(op[1]))
        else:
          m.clear()
      except (TypeError, ValueError) as e:
        err = type(e).__name__
        failing = True
      bad = twm_inverse_problem(m, lt, rt)
      if bad:
        ck.violation("TwoWayMap(left=%s, right=%s): _fwd and _bwd not inverse after %s%s" % (
          lt, rt, op[0], " that raised" if err else ""), bad, {"stream": "twm", "left": lt, "right": rt, "ops": seq[:i + 1]})
        break
      real = {"err": err, "fwd": dump_real_side(m._fwd, rt), "bwd": dump_real_side(m._bwd, lt)}
      if "steps" not in mo:
        mod = {"driver": mo}
      else:
        st = mo["steps"][i]
        mod = {"err": st["err"], "fwd": dump_model_side(st["fwd"], rt), "bwd": dump_model_side(st["bwd"], lt)}
      if real != mod:
        ck.count("model_impl_disagreements")
        if mism is None:
          mism = {"stream": "twm", "left": lt, "right": rt, "ops": seq[:i + 1], "impl": real, "model": mod}
        break
    if failing and len(seq) >= 3:
      ck.nontrivial_case(["twm", lt, rt, seq])
  return mism


# ---------------------------------------------------------------------------------------------
# stream B: make_sort_spec

def classify_order_by(v):
  if isinstance(v, tuple) and all(isinstance(x, str) for x in v):
    return {"k": "tuple", "v": list(v)}
  if isinstance(v, str):
    return {"k": "str", "v": v}
  if v is None:
    return {"k": "none"}
  if isinstance(v, tuple):
    return None
  return {"k": "other"}


def classify_sort_by(v):
  if isinstance(v, str):
    return {"k": "str", "v": v}
  return {"k": "other"} if v else {"k": "none"}


def oracle_make_sort_spec(order_by, sort_by, manual):
  """The documented behaviour restated: sort_by = its column only; order_by columns up to 'id';
  manualSort appended when the table has it, 'id' was not given and it is not already named."""
  if isinstance(sort_by, str) and sort_by:
    return [sort_by]
  if sort_by:
    return "TypeError"
  if isinstance(order_by, str):
    cols = [order_by]
  elif order_by is None:
    cols = []
  elif isinstance(order_by, tuple):
    cols = list(order_by)
  else:
    return "TypeError"
  out = []
  for c in cols:
    if c == "id":
      return out
    out.append(c)
  if manual and not any(c == "manualSort" for c in cols):
    out.append("manualSort")
  return out


def stream_sortspec(ck, n):
  import table as table_mod
  rng = ck.rng
  names = ["a", "-a", "b", "id", "manualSort", "-manualSort", "-id", "s1", "-", ""]
  cases = []
  for _ in range(n):
    r = rng.random()
    if r < 0.6:
      ob = tuple(rng.choice(names) for _ in range(rng.choice([0, 1, 2, 2, 3, 4])))
    elif r < 0.75:
      ob = rng.choice(names)
    elif r < 0.85:
      ob = None
    else:
      ob = rng.choice([5, ["a"], 1.5, True, 0])
    sb = rng.choice([None, None, None, "", "a", "-b", 0, 5, ("a",), [], False, True, "id"])
    cases.append((ob, sb, rng.random() < 0.6, [rng.randint(1, 9) for _ in range(rng.choice([0, 1, 3]))]))
  for ob in [(), ("id",), ("a", "id", "b"), ("manualSort",), ("-manualSort",), "id", "a", None]:
    for sb in [None, "", "x"]:
      for man in (True, False):
        cases.append((ob, sb, man, [3, 1]))
  ops = [{"m": "lookup", "op": "sortspec", "order_by": classify_order_by(ob), "sort_by": classify_sort_by(sb),
          "manual": man, "rows": rows} for (ob, sb, man, rows) in cases]
  model = ck.driver(ops)
  mism = None
  for (ob, sb, man, rows), mo in zip(cases, model):
    ck.evaluated()
    ck.count("sortspec_cases")
    try:
      real = list(table_mod.make_sort_spec(copy.deepcopy(ob), copy.deepcopy(sb), man))
    except TypeError:
      real = "TypeError"
    exp = oracle_make_sort_spec(ob, sb, man)
    if real != exp:
      ck.violation("make_sort_spec differs from the documented sort specification",
                   "order_by=%r sort_by=%r manualSort=%r -> %r, documented %r" % (ob, sb, man, real, exp),
                   {"stream": "sortspec", "order_by": enc_kwargs({"v": ob})["v"], "sort_by": enc_kwargs({"v": sb})["v"], "manual": man})
    ms = mo.get("spec")
    ms = "TypeError" if isinstance(ms, dict) else ms
    parsed_ok = True
    if isinstance(real, list) and isinstance(ms, list):
      pe = [[c[1:], True] if c.startswith("-") else [c, False] for c in real]
      parsed_ok = (pe == mo.get("parsed"))
    one_ok = mo.get("one") == (rows[0] if rows else 0)
    if ms != real or not parsed_ok or not one_ok:
      ck.count("model_impl_disagreements")
      if mism is None:
        mism = {"stream": "sortspec", "order_by": repr(ob), "sort_by": repr(sb), "manual": man, "impl": real, "model": mo}
    if isinstance(real, list) and len(real) >= 2:
      ck.nontrivial_case(["sortspec", repr(ob), repr(sb), man])
  return mism


# ---------------------------------------------------------------------------------------------

def witness_direct(ck):
  """The Lean counterexample `exBad` (why sorted_cache_valid needs the ordering assumption) driven
  STRAIGHT into the real LookupMapColumn / SortedLookupMapColumn objects of a live engine, in the
  order the engine itself never uses: `_reset_sorted_versions` before `update_record`, key cells
  written back in between.  The real objects must behave as the model says (stale cache), and the
  protocol checker must flag the stream.  Returns a mismatch description or None."""
  from gx import engine_driver as ed
  install_wrappers()
  doc = ed.Doc()
  tr = Tracer(doc)
  def act(b):
    SINK.active = tr
    try:
      r = doc.apply(b)
    finally:
      SINK.active = None
    if not r.ok:
      raise common.Infra("witness setup rejected: %r" % (r.error,))
    tr.after_step()
  act([["AddTable", "T", [col("k", "Int"), col("s1", "Int"), col("s2", "Text")]]])
  act([["BulkAddRecord", "T", [1, 2], {"k": [1, 1], "s1": [1, 2]}]])
  tbl = doc.engine.tables["T"]
  SINK.active = tr
  try:
    first = [int(x) for x in tbl.lookup_records(k=1, order_by=("s1", "id"))._row_ids]
    lmap = tbl._special_cols["#lookup#k"]
    smap = tbl._special_cols["#lookup#k#s1"]
    tbl.get_column("k").set(1, 7)
    tbl.get_column("s1").set(1, 5)
    rec = tbl.Record(1, None)
    smap._recalc_rec_method(rec, tbl)          # _reset_sorted_versions first
    tbl.get_column("k").set(1, 1)              # key written back before update_record ran
    lmap._recalc_rec_method(rec, tbl)          # update_record: old key == new key
    stale = [int(x) for x in lmap._do_lookup_with_sort((1,), ("s1",), smap.sort_key)[0]]
    fresh = sorted([1, 2], key=smap.sort_key)
  finally:
    SINK.active = None
  ck.count("ordering_assumption_witness_runs")
  sess = [x for x in tr.sessions if x.col_id == "#lookup#k"]
  if not sess or sess[0].dead:
    return "witness: session not recorded (%r)" % ([x.dead for x in sess],)
  s0 = sess[0]
  ans = run_driver([s0.op()])[0]
  for i, (ev, exp, got) in enumerate(zip(s0.events, s0.expect, ans.get("results", []))):
    if exp is not None and exp != canon_model_result(got):
      return "witness event %d %r: implementation %r model %r" % (i, ev, exp, canon_model_result(got))
  if (first, stale, fresh) != ([1, 2], [1, 2], [2, 1]):
    return "witness: real objects gave first=%r stale=%r fresh=%r, the model [1,2],[1,2],[2,1]" % (first, stale, fresh)
  if protocol_violation(s0.events, s0.expect) is None:
    return "witness: the protocol checker did not flag the stream"
  ck.count("ordering_assumption_witness_reproduced_on_real_objects")
  ck.nontrivial_case(["witness", s0.events])
  return None


def run(ck):
  ck.rule = ("histories of 20-30 bundles on T (<=8 rows; key columns Int/Text/Numeric/Any/Bool with alt-text, Ref, "
             "ChoiceList, RefList, Any-with-lists; adds, key/sort/manualSort updates, raw doc-action writes, removals, "
             "ReplaceTableData, type changes of the key column, undo, reference-target removal) probed by 14 of 22 lookup "
             "formulas per history (exact / multi-column / Ref / CONTAINS / match_empty, 10 order variants, lookupOne) "
             "plus direct lookup_records calls; MIXED-KEY stream: histories whose T also has own Ref:P, b Bool, ch Choice, "
             "n Int and two Any FORMULA columns holding lists of Records / ints / both (5+4 formula variants), probed by 8 "
             "fixed + 8 generated lookups of 1-3 keys combining CONTAINS (ChoiceList / RefList / Any list / Any formula "
             "list, with and without match_empty) with equality keys on Ref / Int / Text / Bool / Choice columns, keys given "
             "as Records ($pr, rec), row ids ($pr.id, $id) and plain values, lookupRecords and lookupOne, 9 order variants; "
             "edits of the indexed cells (Ref key moved, list cell -> non-list value and back, emptied, duplicates, two "
             "rows swapping keys, formula inputs renamed, reference targets removed, undo) judged after every bundle; an "
             "EXHAUSTIVE small scope (every ordered pair of (Ref key, list cell) states of one row: 12x12 quick, 24x24 x 3 "
             "formula variants thorough) and a fixed scripted witness; every LookupMapColumn event stream (the combined "
             "ones included) replayed in the Lean machine; "
             "TwoWayMap op sequences over all 25 bin pairs (all 2-3 op sequences over an 8-op alphabet + random); "
             "make_sort_spec on tuples/strings/None/malformed; non-trivial = a probe cell with >=3 result rows under "
             "an explicit order, a TwoWayMap sequence containing a failing call, a sort spec of >=2 columns; "
             "distinct by content")
  ck.assumptions = [
    "sort values of the returned rows mutually comparable (all numbers / all str / all None), else only the row set is demanded",
    "keys are not NaN; exact keys are hashable (list keys: error value only)",
    "model universe: None/bool/int/float/str/AltText and lists of them as key cells; None/bool/int/str as sort cells "
    "(a session whose cells leave it is dropped from the model tie and counted; the oracle still applies)",
    "key type conversion (usertypes convert + rich value of the looked-up column) is a parameter taken from the real tree",
    "0/False in a CONTAINS(match_empty) column: either answer accepted by the oracle",
    "dict / set iteration order is not observable in the modelled code",
    "a Record counts as its row id, as a key, as a cell and as an element of a list cell (documented for Reference "
    "columns); Records given as keys are of the table the looked-up column refers to",
    "combined CONTAINS + equality lookups: judged by the direct oracle (naive scan over the cells) AND tied to the Lean "
    "event machine (its kinds list already mixes exact and CONTAINS columns); what the machine does NOT model is "
    "lookup._extract itself: the harness maps Record -> row id before cells / keys reach the model, so that a real index "
    "holding Record objects instead of row ids is detected by the direct oracle and the naive index recomputation only",
    "Any FORMULA key columns: their cells are computed inside update_record / _reset_sorted_versions, the tie reads them "
    "after the call; calls that end in OrderError (formula not yet up to date; index untouched) are not events; cells "
    "holding RecordStub (formula values restored by an undo until recomputed) leave the model universe",
  ]
  ck.lean(["GristProps.C13"])
  thorough = ck.tier == "thorough"
  mism = stream_twm(ck, 6000 if thorough else 300)
  m2 = stream_sortspec(ck, 4000 if thorough else 300)
  mism = mism or m2
  w = witness_direct(ck)
  if w and mism is None:
    mism = {"stream": "witness", "diff": w}
  procs = min(14, os.cpu_count() or 1) if thorough else min(4, os.cpu_count() or 1)
  n = 560 if thorough else 16
  results = run_histories(ck, n, 40 if thorough else 24, procs,
                          n_mixed=280 if thorough else 6, n_trans=3 if thorough else 1)
  index_first = None
  for r in results:
    for (sig, detail, rp) in r["findings"]:
      ck.violation(sig, detail, dict(rp, stream="history"))
    for (detail, rp) in r["index"]:
      ck.count("index_invariant_failures")
      if index_first is None:
        index_first = (detail, rp)
    for (detail, rp) in r["mism"]:
      ck.count("model_impl_disagreements")
      if mism is None:
        mism = dict(rp, stream="history", diff=detail)
    ck.evaluated(r["stats"].get("probe_cells", 0))
    for k, v in r["stats"].items():
      ck.count(k, v)
    for k, v in r["kinds"].items():
      ck.count("kind:" + k, v)
    for k, v in r["cnt"].items():
      ck.count("model:" + k, v)
    for x in r["nontrivial"]:
      ck.nontrivial.add(x)
    for s in r["samples"]:
      ck.sample(s)
  if not ck.has_impl_violation():
    if index_first is not None:
      ck.broken("index invariant on the real LookupMapColumn (naive recomputation)", index_first[0],
                dict(index_first[1], stream="history"))
    elif mism is not None:
      ck.broken("correspondence lookup/twowaymap/make_sort_spec vs Grist.Lookup",
                "model and implementation differ (%s) and the property's clauses hold on all explored inputs"
                % str(mism.get("diff") or mism)[:500], mism)


def replay(ck, rp):
  r = rp["replay"]
  common.setup_repo_path()
  stream = r.get("stream", "history")
  ck.evaluated()
  ck.nontrivial_case("replay"); ck.nontrivial_case("replay2")
  if stream == "twm":
    import twowaymap
    m = twowaymap.TwoWayMap(left=real_bin(r["left"]), right=real_bin(r["right"]))
    for op in r["ops"]:
      try:
        getattr(m, op[0])(*copy.deepcopy(op[1:]))
      except (TypeError, ValueError) as e:
        print("replay: %r raised %s" % (op, type(e).__name__))
      bad = twm_inverse_problem(m, r["left"], r["right"])
      print("replay: after %r fwd=%r bwd=%r -> %s" % (op, m._fwd, m._bwd, bad or "inverse"))
      if bad:
        ck.violation("TwoWayMap(left=%s, right=%s): _fwd and _bwd not inverse after %s" % (r["left"], r["right"], op[0]),
                     bad, r)
        break
  elif stream == "witness":
    w = witness_direct(ck)
    print("replay: ordering-assumption witness on the real objects -> %s" % (w or "behaves as the model"))
  elif stream == "sortspec":
    import table as table_mod
    ob = dec_kwargs({"v": r["order_by"]})["v"]
    sb = dec_kwargs({"v": r["sort_by"]})["v"]
    try:
      real = list(table_mod.make_sort_spec(ob, sb, r["manual"]))
    except TypeError:
      real = "TypeError"
    exp = oracle_make_sort_spec(ob, sb, r["manual"])
    print("replay: make_sort_spec(%r, %r, %r) = %r, documented %r" % (ob, sb, r["manual"], real, exp))
    if real != exp:
      ck.violation("make_sort_spec differs from the documented sort specification", "%r vs %r" % (real, exp), r)
  else:
    h = History(r["cfg"], model=False)
    h.replay_steps(r["steps"])
    last = len(r["steps"]) - 1
    shown = False
    for (sig, detail, si) in h.findings:
      print("replay finding at step %d: %s: %s" % (si, sig, detail[:400]))
      ck.violation(sig, detail, r)
      shown = True
    for (detail, si) in h.index_problems:
      print("replay index problem at step %d: %s" % (si, detail[:400]))
    if not shown:
      print("replay: property holds on this history (%d steps)" % len(r["steps"]))
  ck.lean(["GristProps.C13"])
