"""
C12  Summary tables are exact group-bys of their source.

Theorems: lean/GristProps/C12.lean about lean/GristModel/SummaryModel.lean (the helper column
`#summary#<table>` = `_updateSummary` with `lookupOrAddDerived` / the `sorted(product(..))` + bulk add
variant, `group` = lookup of the helper column, auto-removal of rows with an empty group):
`summary_maintain`, `summary_build`, `maintain_no_empty_group`, `no_duplicate_keys`, `helper_cell_exact`,
`keysOf_distinct`, `mem_keysOf`, `mem_cellKeys`, `codeKeys_exact`, `group_sorted`, `group_unique`,
`checkExact_iff`, `guard_blocks_adds` (negation under the is_triggered_by_table_action guard).

Interpretation (written down because the property text leaves it open):
 * Summary tables = `_grist_Tables` records with `summarySourceTable`; group-by columns = their columns
   with `summarySourceCol`; the source column's TYPE (ChoiceList / RefList:*) decides whether a cell is
   list-valued: in such a column `None` is the empty list, a list/tuple value contributes one key per
   distinct element, any other value (alt text, number) contributes none; an empty list counts as ''
   (ChoiceList) / 0 (RefList).  Columns of any other type contribute their value, whatever it is.
 * "distinct key" is distinctness of the lookup key the ENGINE derives from a cell: for a source value the
   rich value of the summary table's column after conversion (`col._convert_raw_value(col.convert(v))`),
   for a cell stored in the summary table its rich value (the index key); references by row id: 1, 1.0 and True are one key; None, '' and 0 are three; two timestamps of the same day are one
   key in a Date column; alt text compares by its text.  The check obtains that key from the live column
   objects (value conversion is the subject of other properties); everything else -- the cartesian
   product, distinct elements, defaults for empty lists, membership, uniqueness, ascending order of
   `group`, absence of empty groups -- is evaluated by code written independently of the engine and of
   the Lean model.
 * A source cell holding an error (formula group-by column that raises) contributes no key (the helper
   formula cannot read it); counted as `error_cells`.
 * The property is demanded after every SUCCESSFUL bundle (rejected bundles are C04's subject).

Tie (model == code): for every successful bundle that only edits records and leaves the set of summary
tables / group-by columns unchanged, the Lean model is run on (helper column before, summary table
before, source rows after, dirtied rows) and must reproduce the real summary table (row ids, keys,
groups), the real private helper column (cell by cell, as sets) and hence exactly the rows added and
removed by the real stored actions; the driver also evaluates the Lean predicate `checkExact`
(= `SummaryExact`, theorem `checkExact_iff`) on every real document state.
Regrouping (`update_summary_section`), renames, type changes and removals of group-by columns are
reached through the histories and checked by the evaluated predicate only (named gap: summary.py).
"""
import itertools
import json
import signal
import subprocess

from gx.props import _hist

PROP = "C12"
TIE = "C12-tie"
LEVEL = "proof"

RECORD_ACTIONS = ("AddRecord", "BulkAddRecord", "UpdateRecord", "BulkUpdateRecord", "RemoveRecord",
                  "BulkRemoveRecord")
USER_RECORD_ACTIONS = RECORD_ACTIONS + ("AddOrUpdateRecord", "BulkAddOrUpdateRecord")


# --------------------------------------------------------------------------- capture of the real state

def _kind(src_type):
  base = (src_type or "").split(":")[0]
  return "c" if base == "ChoiceList" else ("r" if base == "RefList" else "s")


class _Err(Exception):
  pass


class _NaN(Exception):
  pass


def _lookup_key(sum_col, value, stored=False):
  """The key component the engine's lookup uses for `value` in the summary table's column:
  for a looked-up value `col._convert_raw_value(col.convert(value))` (table.lookup_records), for a
  value STORED in the column (`stored=True`) the index key `col._convert_raw_value(raw)`
  (LookupMapColumn: getattr(rec, col)); references by row id (lookup._extract)."""
  import records
  import objtypes
  if isinstance(value, objtypes.RaisedException):
    raise _Err()
  try:
    v = sum_col._convert_raw_value(value if stored else sum_col.convert(value))
  except Exception:
    raise _Err()
  if isinstance(v, records.Record):
    return v._row_id
  if isinstance(v, list):
    v = tuple(v)
  try:
    hash(v)
  except TypeError:
    raise _Err()
  if v != v:        # NaN: never equal to itself (every NaN cell is a key of its own): outside the premise
    raise _NaN()
  return v


def capture(doc):
  """Every summary table of the live document:
  {"sum","src","cols":[(summary colId, source colId, source type)],"kinds",
   "rows":[(rid,[cell])], "srows":[(sid,key,group)], "helper":{rid: [sid..]}|None, "errors":n}
  cell = ("s",k) | ("c",[k..]) | ("r",[k..]) | ("o",) | ("e",) error | ("x",repr) list value in a
  column that is not ChoiceList/RefList"""
  import objtypes
  import records
  eng = doc.engine
  trecs = doc.meta("_grist_Tables")
  crecs = doc.meta("_grist_Tables_column")
  tby = {t["id"]: t for t in trecs}
  cby = {c["id"]: c for c in crecs}
  out = []
  for t in trecs:
    if not t.get("summarySourceTable"):
      continue
    srec = tby.get(t["summarySourceTable"])
    cap = {"sum": t["tableId"], "src": srec["tableId"] if srec else None, "cols": [], "problem": None,
           "rows": [], "srows": [], "helper": None, "errors": 0, "lists": 0, "nan": 0, "negrefs": [], "fcols": []}
    out.append(cap)
    for c in crecs:
      if c["parentId"] == t["id"] and c.get("summarySourceCol"):
        sc = cby.get(c["summarySourceCol"])
        cap["cols"].append((c["colId"], sc["colId"] if sc else None, sc["type"] if sc else None))
        if sc and sc["isFormula"]:
          cap["fcols"].append(sc["colId"])
    cap["cols"].sort()
    cap["kinds"] = [_kind(c[2]) for c in cap["cols"]]
    cap["missing_targets"] = [c[1] for c in cap["cols"] if c[2] and c[2].split(":")[0] in ("Ref", "RefList")
                              and c[2].split(":", 1)[1] not in eng.tables]
    st, tt = eng.tables.get(cap["sum"]), eng.tables.get(cap["src"])
    if st is None or tt is None:
      cap["problem"] = "summary table or its source table does not exist in the engine"
      continue
    missing = [c for c in cap["cols"] if c[1] is None or not tt.has_column(c[1]) or not st.has_column(c[0])]
    if missing:
      cap["problem"] = "group-by column missing in the source or the summary table: %r" % (missing,)
      continue
    if any(c[0] == "group" for c in cap["cols"]):
      cap["problem"] = "a group-by column is called `group`: columns %r" % (sorted(c for c in st.all_columns if not c.startswith("#")),)
      continue
    if not st.has_column("group"):
      cap["problem"] = "no `group` column: columns %r" % (sorted(c for c in st.all_columns if not c.startswith("#")),)
      continue
    scols = [st.get_column(c[0]) for c in cap["cols"]]
    tcols = [tt.get_column(c[1]) for c in cap["cols"]]
    for r in sorted(tt.row_ids):
      cells = []
      for sc, tc, kind in zip(scols, tcols, cap["kinds"]):
        raw = tc.raw_get(r)
        try:
          if isinstance(raw, objtypes.RaisedException):
            raise _Err()
          if kind == "s" and isinstance(raw, (list, tuple)):
            cells.append(("x", repr(list(raw))))
            cap["lists"] += 1
          elif kind == "s":
            try:
              rich = tc._convert_raw_value(raw)
            except Exception:
              raise _Err()
            cells.append(("s", _lookup_key(sc, rich)))
          elif raw is None:
            cells.append((kind, []))
          elif isinstance(raw, (list, tuple)):
            cells.append((kind, [_lookup_key(sc, e) for e in raw]))
          else:
            cells.append(("o",))
        except _Err:
          cells.append(("e",))
          cap["errors"] += 1
        except _NaN:
          cells.append(("n",))
          cap["nan"] += 1
      cap["rows"].append((r, cells))
      for cell, col in zip(cells, cap["cols"]):
        if (col[2] or "").startswith("Ref") and cell[0] in ("s", "r"):
          vals = [cell[1]] if cell[0] == "s" else cell[1]
          if any(isinstance(v, int) and not isinstance(v, bool) and v < 0 for v in vals):
            cap["negrefs"].append(r)
    gcol = st.get_column("group")
    for s in sorted(st.row_ids):
      try:
        key = tuple(_lookup_key(sc, sc.raw_get(s), stored=True) for sc in scols)
      except _Err:
        key = ("<unreadable key of row %d>" % s,)
        cap["errors"] += 1
      except _NaN:
        key = ("<NaN key of row %d>" % s,)
        cap["nan"] += 1
      g = gcol.raw_get(s)
      if g is None:
        g = []
      elif isinstance(g, (list, tuple)):
        g = list(g)
      else:
        g = ["<%s>" % type(g).__name__]
      cap["srows"].append((s, key, g))
    hcol = tt.all_columns.get("#summary#" + cap["sum"])
    if hcol is not None:
      helper = {}
      for r in sorted(tt.row_ids):
        v = hcol.raw_get(r)
        if isinstance(v, bool) or isinstance(v, objtypes.RaisedException):
          helper = None
          break
        if isinstance(v, int):
          helper[r] = [v] if v else []
        elif v is None:
          helper[r] = []
        elif isinstance(v, (list, tuple)) and all(isinstance(x, int) for x in v):
          helper[r] = list(v)
        else:
          helper = None
          break
      cap["helper"] = helper
  return out


# --------------------------------------------------------------------------- the property (naive twin)

def keys_of(cells):
  """Keys a source row belongs to, per the property text."""
  per = []
  for c in cells:
    if c[0] in ("s", "x"):
      per.append([c[1] if c[0] == "s" else ("<list value>", c[1])])
    elif c[0] in ("c", "r"):
      d = []
      for e in c[1]:
        if e not in d:
          d.append(e)
      if not d:
        d = ["" if c[0] == "c" else 0]
      per.append(d)
    else:
      return []          # non-list value in a list column (or an error cell): no key
  return [tuple(k) for k in itertools.product(*per)]


LIST_CELL_SIG = ("a list value in a group-by column that is not ChoiceList/RefList (an Any formula column returning a list, a "
                 "former ChoiceList column converted to Any) is not grouped: a python list makes the helper formula raise "
                 "(unhashable lookup key: the row is in no group), a tuple is written to the summary table as a mis-decoded "
                 "error value and every such source row gets a summary row of its own")
GROUP_RENAMED_SIG = ("renaming a source-table column that is called `group` also renames the summary table's special "
                     "`group` column (sister-column rename): the summary table has no `group` column any more and is no "
                     "longer a group-by of its source")
NEG_REF_SIG = ("a negative row id in a Ref/RefList group-by cell (left behind by a type change of a column holding negative "
               "numbers) makes the helper formula raise ValueError('Reference to unknown temporary row id') when it adds the "
               "summary row: the source row is not regrouped and stays in its previous groups")
GROUPBY_GROUP_SIG = ("summary table grouped by a source column that is itself called `group`: the group-by column takes the "
                     "name `group`, the special column becomes group2, the table is not recognised as a summary table "
                     "(decode_summary_table_name looks at the column called group) and is never filled")
STALE_FORMULA_SIG = ("a group-by FORMULA column is recalculated in the same pass after the helper cell of the row was already "
                     "evaluated (the helper is pulled early by its #lookup##summary# index, before the lookup the formula "
                     "depends on delivers the change; a cell re-invalidated within one pass is skipped): the summary table "
                     "keeps the row under the stale key")
MISSING_TARGET_SIG = ("summary table grouped by a Ref/RefList column whose TARGET TABLE does not exist (AddColumn accepts the type "
                      "`RefList:NoSuchTable`): the helper formula raises for every source row, the summary table gets no rows")
ERROR_CELL_SIG = ("a source row whose group-by cell holds an error (e.g. a group-by formula that now raises) is not "
                  "regrouped: it stays listed in the groups it belonged to before, and those summary rows survive")


def summary_exact(cap, forgive=()):
  """None or (clause, detail): the clauses of C12 on one captured summary table.
  `forgive` (used ONLY to classify a failure, never to pass it): a set of source row ids that are
  ignored: erased from every group, and summary rows whose group held only such rows are dropped."""
  if cap["problem"]:
    return ("summary table unusable: " + cap["problem"].split(":")[0], cap["problem"])
  err = set(forgive)
  want = {}
  for (rid, cells) in cap["rows"]:
    if rid in err:
      continue
    for k in keys_of(cells):
      want.setdefault(k, []).append(rid)
  srows = cap["srows"]
  if forgive:
    srows = [(sid, key, [x for x in g if x not in err]) for (sid, key, g) in srows
             if not (g and all(x in err for x in g))]
  have = {}
  for (sid, key, g) in srows:
    if key in have:
      return ("two summary rows share a key", "rows %s and %s, key %r" % (have[key][0], sid, key))
    have[key] = (sid, g)
  for k in want:
    if k not in have:
      return ("source key has no summary row", "key %r of source rows %r" % (k, want[k]))
  for k, (sid, g) in have.items():
    if k not in want:
      return ("summary row whose key is absent from the source" + (" (empty group)" if not g else ""),
              "row %s key %r group %r" % (sid, k, g))
  for k, (sid, g) in have.items():
    if g != sorted(want[k]):
      what = "is not in ascending row id order" if sorted(g) == sorted(want[k]) else \
             "differs from the set of source rows with the key"
      return ("group " + what, "row %s key %r group %r expected %r" % (sid, k, g, sorted(want[k])))
  return None


def rows_with(cap, kinds):
  return set(rid for (rid, cells) in cap["rows"] if any(c[0] in kinds for c in cells))


def classify(cap, rec):
  """Signature of a KNOWN class of violation, or None.  A class is recognised only if the table is
  exact once the rows that define the class are ignored."""
  if (cap["problem"] or "").startswith("no `group` column") and any(
      a[0] == "RenameColumn" and a[1] == cap["sum"] and a[2] == "group" for a in rec["res"].stored):
    return GROUP_RENAMED_SIG
  if (cap["problem"] or "").startswith("a group-by column is called `group`"):
    return GROUPBY_GROUP_SIG
  if cap["problem"]:
    return None
  if cap.get("missing_targets") and not cap["srows"]:
    # recognised only in its exact recorded shape: a group-by reference column points at a table the document does
    # not have, and the summary table is completely empty
    return MISSING_TARGET_SIG
  lists, errs, negs = rows_with(cap, "x"), rows_with(cap, "e"), set(cap["negrefs"])
  # rows whose FORMULA group-by cell was recalculated by this very bundle
  recalced = set()
  for a in rec["res"].stored:
    if a[1] == cap["src"] and a[0] in ("UpdateRecord", "BulkUpdateRecord") and set(a[3]) & set(cap["fcols"]):
      recalced.update(a[2] if isinstance(a[2], list) else [a[2]])
  if recalced and not (lists or errs or negs) and summary_exact(cap, forgive=recalced) is None:
    return STALE_FORMULA_SIG
  for rows, sig in ((lists, LIST_CELL_SIG), (errs, ERROR_CELL_SIG), (negs, NEG_REF_SIG),
                    (lists | errs, LIST_CELL_SIG), (errs | negs, NEG_REF_SIG), (lists | errs | negs, NEG_REF_SIG)):
    if rows and summary_exact(cap, forgive=rows) is None:
      return sig
  return None


# --------------------------------------------------------------------------- model tie

class Interner(object):
  """Maps engine key components to model `Val`s, equal keys (python ==/hash) to the same Val."""
  def __init__(self):
    self.m = {}

  def __call__(self, k):
    v = self.m.get(k)
    if v is None:
      if isinstance(k, str):
        v = ["t", k]
      elif isinstance(k, (bool, int)) or (isinstance(k, float) and k == int(k) and abs(k) < 2 ** 53):
        v = ["n", int(k)]
      else:
        v = ["k", "#%d %s" % (len(self.m), type(k).__name__)]
      self.m[k] = v
    return v


def _cells_json(cells, I):
  out = []
  for c in cells:
    if c[0] == "s":
      out.append(["s", I(c[1])])
    elif c[0] in ("c", "r"):
      out.append([c[0], [I(e) for e in c[1]]])
    else:
      out.append(["o"])
  return out


def tie_op(before, after, dirty):
  """Driver op for one summary table across one record-edit bundle (None if not modellable)."""
  if before["problem"] or after["problem"] or before["errors"] or after["errors"] or before["lists"] or after["lists"] or before["nan"] or after["nan"] or before["negrefs"] or after["negrefs"]:
    return None
  if before["helper"] is None or after["helper"] is None:
    return None
  I = Interner()
  # intern the summary keys first: they are what the lookups compare against
  sumj = [[sid, [I(x) for x in key], g] for (sid, key, g) in before["srows"]]
  srcj = [[rid, _cells_json(cells, I)] for (rid, cells) in after["rows"]]
  want = {"sum": [[sid, [I(x) for x in key], g] for (sid, key, g) in after["srows"]],
          "helper": [[r, ids] for r, ids in sorted(after["helper"].items())]}
  op = {"m": "summarymodel", "op": "maintain", "guard": False,
        "helper": [[r, ids] for r, ids in sorted(before["helper"].items())],
        "sum": sumj, "src": srcj, "dirty": sorted(dirty)}
  return op, want


def exact_op(cap):
  if cap["problem"] or cap["errors"] or cap["lists"]:
    return None
  I = Interner()
  return {"m": "summarymodel", "op": "exact",
          "sum": [[sid, [I(x) for x in key], [x for x in g if isinstance(x, int)]] for (sid, key, g) in cap["srows"]],
          "src": [[rid, _cells_json(cells, I)] for (rid, cells) in cap["rows"]]}


def run_driver(ops):
  from gx import common
  if not ops:
    return []
  data = "\n".join(json.dumps(o, separators=(",", ":")) for o in ops) + "\n"
  p = subprocess.run([common.DRIVER], input=data, stdout=subprocess.PIPE, stderr=subprocess.PIPE, text=True,
                     timeout=3000)
  lines = p.stdout.splitlines()
  if p.returncode != 0 or len(lines) != len(ops):
    raise common.Infra("summarymodel driver rc=%s answered %d/%d: %s" % (p.returncode, len(lines), len(ops),
                                                                         p.stderr[-300:]))
  return [json.loads(x) for x in lines]


# --------------------------------------------------------------------------- hooks into HistoryRun

def _stat(h, k, n=1):
  h.stats[k] = h.stats.get(k, 0) + n


def _dirty_rows(rec, src_tid, before, after):
  """Rows of the source table whose helper cell the bundle invalidates: rows named by the bundle's
  stored record actions on the source table plus rows whose group-by cells differ."""
  d = set()
  for a in rec["res"].stored:
    if a[1] == src_tid and a[0] in RECORD_ACTIONS:
      d.update(a[2] if isinstance(a[2], list) else [a[2]])
  b = dict(before["rows"])
  a_ = dict(after["rows"])
  for r in set(b) | set(a_):
    if b.get(r) != a_.get(r):
      d.add(r)
  return d


def oracle(h, rec):
  caps = capture(h.doc)
  before = h.c12_before or []
  h.c12_before = None
  _stat(h, "c12_summary_tables_checked", len(caps))
  names = "+".join(sorted(set(a[0] for a in rec["actions"])))
  bad_here = False
  nan_tables = set(c["sum"] for c in caps if c["nan"])
  _stat(h, "c12_tables_skipped_nan_keys", len(nan_tables))
  caps = [c for c in caps if not c["nan"]]
  for cap in caps:
    _stat(h, "c12_error_cells", cap["errors"])
    _stat(h, "c12_source_rows", len(cap["rows"]))
    _stat(h, "c12_summary_rows", len(cap["srows"]))
    if any(k != "s" for k in cap["kinds"]):
      _stat(h, "c12_list_grouped_tables")
    bad = summary_exact(cap)
    if bad:
      bad_here = True
      rec["abandon"] = True       # the document is off the rails: later bundles would only repeat it
      types = ",".join(sorted(set((c[2] or "?").split(":")[0] for c in cap["cols"]))) or "none"
      sig = classify(cap, rec) or "%s; group-by [%s]; after %s" % (bad[0], types, names)
      h._find(PROP, sig, "%s: %s" % (cap["sum"], bad[1]), rec)
    op = exact_op(cap)
    if op is not None:
      h.c12_ops.append((op, {"exact": bad is None}, "exact", rec["log_index"], cap["sum"]))
  # model tie: record-edit bundles that leave the summary structure alone
  stored = rec["res"].stored
  if bad_here or not stored or any(a[0] not in RECORD_ACTIONS or a[1].startswith("_grist_") for a in stored):
    return
  sum_ids = set(c["sum"] for c in caps) | nan_tables
  if any(ua[0] not in USER_RECORD_ACTIONS or ua[1] in sum_ids or str(ua[1]).startswith("_grist_")
         for ua in rec["actions"]):
    return              # e.g. ApplyUndoActions: the user's actions write the summary table themselves
  if h.c12_pending:
    _stat(h, "c12_tie_skipped_pending_recompute")
    return              # a rejected bundle left cells invalidated (C04): the "before" helper column is not current
  bmap = {c["sum"]: c for c in before if c["sum"] not in nan_tables}
  if sorted(bmap) != sorted(c["sum"] for c in caps):
    return
  for cap in caps:
    b = bmap[cap["sum"]]
    if (b["src"], b["cols"]) != (cap["src"], cap["cols"]):
      continue
    if summary_exact(b) is not None:
      continue            # the model's hypothesis (exact before) does not hold: nothing to predict
    if b["fcols"] or cap["fcols"]:
      _stat(h, "c12_tie_skipped_formula_groupby")
      continue            # helper cells become dirty in stages (after the formula is recalculated): the order in
                          # which rows are evaluated, hence the new row ids, is not the model's ascending order
    dirty = _dirty_rows(rec, cap["src"], b, cap)
    t = tie_op(b, cap, dirty)
    if t is None:
      _stat(h, "c12_tie_skipped_error_cells")
      continue
    op, want = t
    added = sorted(set(s[0] for s in cap["srows"]) - set(s[0] for s in b["srows"]))
    removed = sorted(set(s[0] for s in b["srows"]) - set(s[0] for s in cap["srows"]))
    # the real stored actions on the summary table must add / remove exactly those rows (net)
    sa, sr = [], []
    for a in stored:
      if a[1] == cap["sum"]:
        rows = a[2] if isinstance(a[2], list) else [a[2]]
        if a[0] in ("AddRecord", "BulkAddRecord"):
          sa += rows
        elif a[0] in ("RemoveRecord", "BulkRemoveRecord"):
          sr += rows
    gcolids = set(c[0] for c in cap["cols"])
    if any(a[1] == cap["sum"] and a[0] in ("UpdateRecord", "BulkUpdateRecord") and gcolids & set(a[3])
           for a in stored):
      _stat(h, "c12_tie_skipped_key_rewritten")
      continue            # reference clean-up rewrote a summary row's key in place (RemoveRecord of the target)
    transient = sorted(set(sa) & set(sr))
    if transient:
      _stat(h, "c12_tie_skipped_transient_rows")
      continue            # a row added and removed inside one bundle (intermediate calculation)
    if sorted(sa) != added or sorted(sr) != removed:
      h._find(PROP, "stored actions on the summary table do not add/remove the rows that appeared/disappeared; after " + names,
              "%s: stored add %r remove %r, table diff add %r remove %r" % (cap["sum"], sa, sr, added, removed), rec)
      continue
    if dirty:
      _stat(h, "c12_tie_bundles")
      if added or removed:
        rec["nontrivial"] = True
        _stat(h, "c12_tie_with_row_changes")
      h.c12_ops.append((op, want, "maintain", rec["log_index"], cap["sum"]))


HANG_CPU_SECONDS = 30


class _Hang(BaseException):
  pass


def _on_alarm(signum, frame):
  raise _Hang()


_GUARD = {"installed": False, "calls": 0, "true": 0}


def _watch_guard():
  """Count how often `is_triggered_by_table_action` answers True (the model is run with guard=False)."""
  if _GUARD["installed"]:
    return
  import engine as engine_mod
  orig = engine_mod.Engine.is_triggered_by_table_action

  def is_triggered_by_table_action(self, table_id):
    r = orig(self, table_id)
    _GUARD["calls"] += 1
    if r:
      _GUARD["true"] += 1
    return r
  engine_mod.Engine.is_triggered_by_table_action = is_triggered_by_table_action
  _GUARD["installed"] = True


def install(h, cfg):
  _watch_guard()
  h.c12_guard0 = (_GUARD["calls"], _GUARD["true"])
  h.c12_before = None
  h.c12_pending = False
  h.c12_dead = False
  h.c12_ops = []
  h.extra_oracles.append(oracle)
  raw = h._raw

  def _raw(uas):
    from gx import engine_driver as ed
    if h.c12_dead:
      res = ed.BundleResult()
      res.ok, res.error, res.steps = False, ("Skipped", "history abandoned (a bundle did not terminate, or a rejected bundle changed the document)"), []
      res.stored = res.undo = res.direct = res.ret = res.raw_stored = res.raw_undo = None
      return res
    try:
      h.c12_before = capture(h.doc)
      h.c12_pending = bool(h.doc.engine.recompute_map)
      snap0 = h.doc.snapshot()
    except Exception:
      h.c12_before = None
      raise
    # watchdog on CPU time (not wall time: independent of machine load)
    old = signal.signal(signal.SIGVTALRM, _on_alarm)
    signal.setitimer(signal.ITIMER_VIRTUAL, HANG_CPU_SECONDS)
    try:
      res = raw(uas)
      if not res.ok and ed.diff_snapshots(snap0, h.doc.snapshot()):
        # a REJECTED bundle changed the document (C04's subject): what follows is outside C12's premise
        h.c12_dead = True
        _stat(h, "c12_histories_abandoned_rejected_bundle_left_trace")
      return res
    except _Hang:
      h.c12_dead = True
      h.log.append(uas)
      names = "+".join(sorted(set(a[0] for a in uas)))
      h.findings.append((PROP, "bundle does not terminate (%d s of CPU time) on a document with summary tables; after %s"
                         % (HANG_CPU_SECONDS, names), json.dumps(uas)[:300],
                         {"history": list(h.log), "bundle_index": len(h.log) - 1}))
      res = ed.BundleResult()
      res.ok, res.error, res.steps = False, ("Hang", "no result"), []
      res.stored = res.undo = res.direct = res.ret = res.raw_stored = res.raw_undo = None
      return res
    finally:
      signal.setitimer(signal.ITIMER_VIRTUAL, 0)
      signal.signal(signal.SIGVTALRM, old)
  h._raw = _raw
  end = h.end

  def end_():
    end()
    finish_ties(h)
  h.end = end_


def finish_ties(h):
  ops = h.c12_ops
  h.c12_ops = []
  _stat(h, "c12_guard_calls", _GUARD["calls"] - h.c12_guard0[0])
  _stat(h, "c12_guard_true", _GUARD["true"] - h.c12_guard0[1])
  h.c12_guard0 = (_GUARD["calls"], _GUARD["true"])
  ans = run_driver([o[0] for o in ops])
  for (op, want, kind, bi, tid), a in zip(ops, ans):
    _stat(h, "c12_driver_ops")
    if "error" in a:
      h.findings.append((TIE, "driver error", "%s: %s" % (tid, a["error"]), {"history": h.log[:bi + 1], "bundle_index": bi, "op": op}))
      continue
    if kind == "exact":
      if a["exact"] != want["exact"]:
        h.findings.append((TIE, "Lean checkExact disagrees with the python twin of SummaryExact",
                           "%s: lean %r python %r" % (tid, a["exact"], want["exact"]),
                           {"history": h.log[:bi + 1], "bundle_index": bi, "op": op}))
      continue
    diffs = []
    if a["sum"] != want["sum"]:
      diffs.append("summary table: model %s real %s" % (json.dumps(a["sum"])[:300], json.dumps(want["sum"])[:300]))
    # the ORDER inside a helper cell depends on when it was last evaluated (found rows first, then new
    # ones) and is unobservable (`group` is ordered by row id): cells are compared as sets
    if [[r, sorted(ids)] for r, ids in a["helper"]] != [[r, sorted(ids)] for r, ids in want["helper"]]:
      diffs.append("helper column: model %s real %s" % (json.dumps(a["helper"])[:300], json.dumps(want["helper"])[:300]))
    if not a["exact"]:
      diffs.append("model result is not SummaryExact")
    if diffs:
      h.findings.append((TIE, "maintain: model and engine differ", "%s: %s" % (tid, "; ".join(diffs)),
                         {"history": h.log[:bi + 1], "bundle_index": bi, "op": op, "real": want}))


# --------------------------------------------------------------------------- check

CFG = {"oracles": (), "n_bundles": 26, "hook": "gx.props.c12.install", "tie": False,
       "profile": {"summary": 7, "update_summary": 3, "detach_summary": 0.7,
                   "add_record": 8, "bulk_add": 4, "update_record": 8, "bulk_update": 4, "remove_record": 6,
                   "bulk_remove": 3, "replace_data": 1, "upsert": 1, "temp_ids": 1,
                   "c12_regroup": 26, "c12_empty_group": 8, "c12_add_to_groups": 10,
                   "c12_error_formula": 0.6, "c12_summary_any": 0.8, "c12_retype_groupby": 3, "c12_rename_groupby": 1.5,
                   "undo_earlier": 6, "malformed": 1,
                   "rename_column": 3, "modify_type": 3, "remove_column": 1.5, "add_ref_column": 3,
                   "add_column": 2, "add_formula_column": 1.5, "modify_formula": 1, "to_formula": 0.7, "to_data": 0.3,
                   "remove_table": 0.3, "rename_table": 1, "add_table": 0.7, "duplicate_table": 0.2,
                   "rename_choices": 2, "label_change": 0.7, "display_formula": 0.3, "add_rule": 0.2,
                   "remove_view_stuff": 0.7, "reverse_column": 0.5,
                   # an OLD undo list replayed against a document that has moved on is a raw application of doc
                   # actions (it can remove a summary table's data table under its metadata): outside this
                   # property's histories, as for C09 / C10; kinds added to the shared generator after this
                   # check was written are switched off here and enabled one by one
                   "stale_undo": 0, "ref_into_summary": 0, "remove_summary_widget": 1, "type_change_write": 1,
                   "unhashable_key": 0.5, "agg_unsorted": 0.3, "summary_chain": 4, "column_cycle": 0}}


def run(ck):
  ck.rule = ("seeded histories (26 generated bundles each) on documents with summary tables (0-2 group-by columns of type "
             "Int/Numeric/Text/Bool/Choice/ChoiceList/Ref/RefList, several summary tables per source), mixing record edits that "
             "move rows between groups / empty groups / use duplicate, empty and alt-text list cells with regrouping, renames, "
             "type changes, column removals and undo; the predicate is evaluated on every summary table after every successful "
             "bundle; non-trivial = record-edit bundle after which summary rows appeared or disappeared and on which the Lean "
             "model was run; distinct by user actions")
  ck.assumptions = [
    "key equality = equality of the engine's lookup key of the summary column (rich value after conversion; obtained from the "
    "live column objects, not re-implemented); NaN keys excluded",
    "a source cell holding an error contributes no key",
    "model tie only for record-edit bundles with unchanged summary structure, group-by columns that are data columns, no "
    "error cells, no row added and removed inside the bundle; regrouping / renames / type changes / column removal are checked by the evaluated predicate only "
    "(named gap: summary.py)",
    "model values are interned under the engine's key equality by the harness; is_triggered_by_table_action is False "
    "whenever the helper formula runs (it is set only while metadata lookups are refreshed)",
  ]
  ck.lean(["GristProps.C12"])
  import os
  # NB: the engine modules are deliberately NOT imported here: workers forked from a parent that holds
  # them run ~4x slower (copy-on-write of the shared heap); every worker imports them itself.
  n_dev = int(os.environ.get("GX_C12_N", "0"))      # development aid only
  merged = _hist.run_histories(ck, CFG, n_quick=n_dev or 20, n_thorough=n_dev or 1000)
  _hist.report(ck, merged, PROP, ())
  st = merged["stats"]
  ck.extra["summary_coverage"] = {k: v for k, v in st.items() if k.startswith("c12_")}
  ck.cov["counters"]["bundles_tied_to_model"] = st.get("c12_tie_bundles", 0)
  ck.extra["traces_validated_against_impl"] = st.get("c12_driver_ops", 0)
  ck.evaluated(st.get("c12_summary_tables_checked", 0))
  ties = [f for f in merged["findings"] if f[0] == TIE]
  ck.cov["counters"]["model_impl_disagreements"] = len(ties)
  if ties and not ck.has_impl_violation():
    p, sig, detail, replay, seed = ties[0]
    ck.broken("correspondence SummaryModel vs engine (%s)" % sig, "%d disagreement(s); first: %s" % (len(ties), detail[:700]),
              dict(replay, seed=seed))


def replay(ck, rp):
  import random
  from gx import common
  ck.lean(["GristProps.C12"])
  common.setup_repo_path()
  from gx.hist_run import HistoryRun
  r = rp["replay"]
  hist = r["history"]
  idx = r.get("bundle_index", len(hist) - 1)
  h = HistoryRun(random.Random(0), n_bundles=0, oracles=())
  install(h, CFG)
  for b in hist[:idx]:
    h._raw(b)
    ck.evaluated()
  h.c12_ops = []
  rec = h.apply(hist[idx], ["replay"])
  ck.evaluated()
  finish_ties(h)
  if not rec["res"].ok:
    print("replay: bundle rejected: %r" % (rec["res"].error,))
  for f in h.findings:
    print("replay finding:", f[0], f[1], f[2][:400])
    if f[0] == PROP:
      ck.violation(f[1], f[2], {"history": hist, "bundle_index": idx})
    elif f[0] == TIE:
      ck.broken("correspondence SummaryModel vs engine (%s)" % f[1], f[2][:700], {"history": hist, "bundle_index": idx})
  if not h.findings:
    print("replay: property holds on this history")
  ck.nontrivial_case("replay"); ck.nontrivial_case("replay2")
