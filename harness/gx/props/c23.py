"""
C23  Changing a column's type converts each stored value.

Interpretation:
  * "the new type's conversion of its previous stored value" = `usertypes.<NewType>(...).convert`
    applied to the value the cell held before the bundle (the raw Python object, read from the old
    column with raw_get), preceded for reference columns by the adaptation their column class
    documents (Ref: a list stands for its first element / 0 when empty; RefList: a non-zero int n
    stands for [n]).  The harness applies this itself (an independent re-statement, never calling
    column.convert) and compares encodings with int/float normalised (`ed.ntok`): the int-vs-float
    drift of the change detector is the known C01/C03 finding and is not re-filed here.
  * the new cell must be of the new type (`is_right_type`), an error object, or text;
  * "no other cell changes": every cell of every user table other than the changed column is
    compared exactly before/after; formula columns (isFormula, incl. gristHelper_Display) and the
    reverse column of a two-way reference are exempt; metadata tables may change;
  * stored actions may touch only: ModifyColumn of that column, (Bulk)UpdateRecord of that column,
    of formula columns, of the reverse column, and anything in `_grist_*` tables;
  * a REFUSED change (bundle rejected, document unchanged) is outside the property when it is one
    of the engine's documented refusals ('invalid change to type of a two-way reference column',
    UNIQUE reference constraint); any other rejection is reported.
Both paths are exercised: the `ModifyColumn` user action and `UpdateRecord _grist_Tables_column
{type}`.

Theorems: lean/GristProps/C23.lean (modifyCell / colSet / colConvert in GristModel/PyVal.lean).
Tie: every cell of every scenario: the model's `modifyCell` (driver op "modify") on the serialised
old value vs the cell the engine reports afterwards (exact encodings), and rejection vs rejection.
"""
import copy
import json
import marshal
import os

from gx import pyval
from gx.pyval import Ctx, Ser, build, NotInUniverse

TYPES = ["Text", "Int", "Numeric", "Bool", "Date", "DateTime:UTC", "Choice", "ChoiceList", "Ref:T", "RefList:T", "Any"]
LEGIT_REFUSALS = ("invalid change to type of a two-way reference column", "UNIQUE reference constraint violated")

SIG_OVERFLOW = "type change to a float-backed type (Numeric/Date/DateTime) is rejected with OverflowError when a cell holds an int beyond the float range"
SIG_DAMAGED = "type change rejected with OverflowError leaves the column half-converted (cells from the offending one on are lost)"
SIG_COERCED = "RefList: list cell equal to its conversion only through True==1 / 0.0==0 is left unconverted"
SIG_REPARSED = "RefList: alt-text of a failed conversion is parsed again by the column's set() into a list that is not of the type"


def tau_json(t):
  if t.startswith("DateTime"): return "DateTime"
  if t.startswith("RefList:"): return {"refList": t[8:]}
  if t.startswith("Ref:"): return "Ref"
  return t

def type_obj(t):
  import usertypes
  if t.startswith("DateTime:"): return usertypes.DateTime(timezone=t[9:])
  if t.startswith("RefList:"): return usertypes.ReferenceList(t[8:])
  if t.startswith("Ref:"): return usertypes.Reference(t[4:])
  return getattr(usertypes, t)()


def adapt(t, old):
  """What the reference column classes document about the value they convert."""
  if t.startswith("Ref:"):
    if isinstance(old, list):
      return old[0] if old else 0
  elif t.startswith("RefList:"):
    if old and isinstance(old, int):
      return [old]
  return old


# ------------------------------------------------------------------------------ inputs
_INPUTS = None
def inputs():
  """Encoded cell values a client can send: the C22 value tables restricted to what encode_object
  makes marshal-safe (Records/RecordSets/bytes/sets/foreign objects reach cells only as their
  encodings)."""
  global _INPUTS
  if _INPUTS is not None:
    return _INPUTS
  import objtypes
  from gx.props import c24
  ctx = Ctx("UTC")
  out, seen = [], set()
  for spec in pyval.atom_table() + pyval.container_table():
    if pyval.is_hostile(spec) or spec[0] in ("obj", "rec", "rset", "rlist", "set", "pending", "censored"):
      continue
    try:
      e = objtypes.encode_object(build(spec, ctx))
      b = marshal.dumps(e, 2)
    except Exception:
      continue
    if c24.walk_safe(e) or b in seen:
      continue
    seen.add(b)
    out.append(e)
  _INPUTS = out
  return out

def has_negative(e):
  if type(e) is int: return e < 0
  if type(e) is list: return any(has_negative(x) for x in e)
  return False


# ------------------------------------------------------------------------------ one scenario
def make_doc(src, cols, linked=None):
  """T (4 rows, reference target) and S with one data column A<i> of type `src` per entry of `cols`
  (each with its own contents), a bystander Text column B, a bystander Any column C holding the
  contents of the first column, formula columns F<i> = $A<i> and G = len($B)."""
  from gx import engine_driver as ed
  doc = ed.Doc()
  r = doc.apply([["AddTable", "T", [{"id": "N", "type": "Text"}]],
                 ["BulkAddRecord", "T", [None] * 4, {"N": ["a", "b", "c", "d"]}]])
  assert r.ok, r.error
  n = max(len(c["vals"]) for c in cols)
  spec = [{"id": "B", "type": "Text"}, {"id": "C", "type": "Any"},
          {"id": "G", "type": "Int", "isFormula": True, "formula": "len($B)"}]
  data = {"B": ["b%d" % i for i in range(n)], "C": copy.deepcopy((cols[0]["vals"] + [None] * n)[:n])}
  for i, c in enumerate(cols):
    spec.append({"id": "A%d" % i, "type": src})
    spec.append({"id": "F%d" % i, "type": "Any", "isFormula": True, "formula": "$A%d" % i})
    data["A%d" % i] = copy.deepcopy((c["vals"] + [None] * n)[:n])
  r = doc.apply([["AddTable", "S", spec]])
  assert r.ok, r.error
  r = doc.apply([["BulkAddRecord", "S", [None] * n, data]])
  if not r.ok:
    return None, r.error
  if linked:
    r = doc.apply([["AddReverseColumn", "S", "A0"]])
    if not r.ok:
      return None, r.error
  return doc, None


def col_meta(doc, table_id, col_id):
  tref = [t["id"] for t in doc.meta("_grist_Tables") if t["tableId"] == table_id][0]
  return [c for c in doc.meta("_grist_Tables_column") if c["parentId"] == tref and c["colId"] == col_id][0]

def col_by_ref(doc, ref):
  c = [c for c in doc.meta("_grist_Tables_column") if c["id"] == ref][0]
  t = [t for t in doc.meta("_grist_Tables") if t["id"] == c["parentId"]][0]
  return t["tableId"], c["colId"]


def run_group(group):
  """group = dict(src, cols=[dict(dst, path, vals, target?)...], linked?) -> list of outcome dicts,
  one per column (the type changes are applied one after the other to the same document, so all
  other columns are bystanders of each change)."""
  src = group["src"]
  doc, err = make_doc(src, group["cols"], group.get("linked"))
  outs = []
  for i, c in enumerate(group["cols"]):
    case = {"src": src, "dst": c["dst"], "path": c["path"], "vals": c["vals"], "linked": group.get("linked"),
            "target": c.get("target")}
    rp = {"group": group, "index": i}
    if doc is None:
      outs.append({"case": case, "bad": [], "ops": [], "real": [], "cells": 0, "changed": 0, "rejected": None,
                   "setup_error": err})
      continue
    outs.append(run_scenario(doc, "A%d" % i, case, rp))
    if outs[-1]["rejected"] and not outs[-1].get("legit"):
      break       # the document may be damaged by an internal failure: stop using it
  return outs


def run_scenario(doc, acol, case, rp):
  from gx import engine_driver as ed
  import objtypes
  src, dst, path, vals = case["src"], case["dst"], case["path"], case["vals"]
  out = {"case": case, "rp": rp, "bad": [], "ops": [], "real": [], "cells": 0, "changed": 0, "rejected": None}
  # which column changes type: S.A, or (target == "reverse") the reverse column of S.A
  tid, cid = "S", acol
  if case.get("target") == "reverse":
    tid, cid = col_by_ref(doc, col_meta(doc, "S", acol)["reverseCol"])
  cm = col_meta(doc, tid, cid)
  rev = col_by_ref(doc, cm["reverseCol"]) if cm.get("reverseCol") else None
  table = doc.engine.tables[tid]
  col = table.get_column(cid)
  rows = list(table.row_ids)
  old = {r: col.raw_get(r) for r in rows}    # the engine never mutates cell objects
  before = doc.snapshot()
  sch = doc.engine_schema()
  if path == "ModifyColumn":
    res = doc.apply([["ModifyColumn", tid, cid, {"type": dst}]])
  else:
    res = doc.apply([["UpdateRecord", "_grist_Tables_column", cm["id"], {"type": dst}]])
  after = doc.snapshot()
  ctx = Ctx("UTC")
  # ---- the model's prediction for every cell (also tells whether the engine should refuse)
  tau = tau_json(dst)
  sers = {}
  for r in rows:
    ser = Ser(ctx)
    try:
      jv = ser.val(old[r])
      # strings the model can meet on the way: the alt-text of the adapted value
      a = adapt(dst, old[r])
      if a is not old[r]:
        ser._s(str(a))
    except NotInUniverse:
      continue
    except Exception:
      pass
    sers[r] = (ser, jv)
  if not res.ok:
    out["rejected"] = list(res.error)
    msg = res.error[1]
    out["legit"] = any(m in msg for m in LEGIT_REFUSALS)
    if before != after:
      d = ed.diff_snapshots(before, after)
      out["bad"].append((SIG_DAMAGED if res.error[0] == "OverflowError" else "rejected type change left the document changed",
                         "%s -> %s: %s; %s" % (src, dst, res.error, "; ".join(d)[:300]), rp))
    if not any(m in msg for m in LEGIT_REFUSALS):
      sig = SIG_OVERFLOW if res.error[0] == "OverflowError" else \
        "type change %s -> %s rejected with %s" % (src.split(":")[0], dst.split(":")[0], res.error[0])
      out["bad"].append((sig, "%s.%s %s -> %s (%s): %s" % (tid, cid, src, dst, path, res.error), rp))
    for r, (ser, jv) in sers.items():
      out["ops"].append({"m": "pyval", "op": "modify", "tau": tau, "v": jv, "prim": pyval.prim_tables(ser)})
      out["real"].append({"row": r, "rejected": True, "legit": any(m in msg for m in LEGIT_REFUSALS)})
    return out
  T = type_obj(dst)
  new_col = doc.engine.tables[tid].get_column(cid)
  for r in rows:
    out["cells"] += 1
    new = new_col.raw_get(r)
    try:
      exp = T.convert(adapt(dst, old[r]))
    except Exception as e:
      out["bad"].append(("reference conversion raises in the oracle", "%r: %s" % (old[r], e), rp))
      continue
    got = ed.ntok(ed.tokv(new))
    want = ed.ntok(ed.tok(objtypes.encode_object(exp)))
    if ed.tokv(new) != ed.tokv(old[r]):
      out["changed"] += 1
    if got != want:
      if dst.startswith("RefList") and type(old[r]) is list and isinstance(exp, list) and old[r] == exp:
        sig = SIG_COERCED
      elif dst.startswith("RefList") and isinstance(exp, str) and isinstance(new, list):
        sig = SIG_REPARSED
      else:
        sig = "cell is not the %s conversion of its previous %s value" % (dst.split(":")[0], type(old[r]).__name__)
      out["bad"].append((sig, "%s -> %s (%s): old %r, cell now %s, conversion gives %s" % (src, dst, path, old[r], got, want),
                         dict(rp, row=r)))
    try:
      right = bool(T.is_right_type(new))
    except Exception:
      right = False
    if not (right or isinstance(new, objtypes.RaisedException) or isinstance(new, str)):
      if got == want:    # otherwise already reported above
        out["bad"].append(("cell after type change is neither of the type nor an error nor text (%s)" % dst.split(":")[0],
                           "%s -> %s: old %r, cell now %r" % (src, dst, old[r], new), dict(rp, row=r)))
    if r in sers:
      ser, jv = sers[r]
      try:
        je = ser.enc(objtypes.encode_object(new))
      except NotInUniverse:
        continue
      out["ops"].append({"m": "pyval", "op": "modify", "tau": tau, "v": jv, "prim": pyval.prim_tables(ser)})
      out["real"].append({"row": r, "enc": je, "right": right, "old": repr(old[r])[:80]})
  # ---- frame: nothing else changes
  for t in sorted(set(before) | set(after)):
    if t.startswith("_grist_"):
      if before.get(t) != after.get(t):
        out.setdefault("meta_changed", []).append(t)
      continue
    if t not in before or t not in after or before[t]["ids"] != after[t]["ids"]:
      out["bad"].append(("type change adds or removes rows or tables", t, rp)); continue
    for c in sorted(set(before[t]["cols"]) | set(after[t]["cols"])):
      if (t, c) == (tid, cid):
        continue
      if c not in before[t]["cols"] or c not in after[t]["cols"]:
        out["bad"].append(("type change adds or removes a column", "%s.%s" % (t, c), rp)); continue
      if before[t]["cols"][c] == after[t]["cols"][c]:
        continue
      info = sch.get(t, {}).get(c)
      if info and info[1]:
        out["formula_cols_changed"] = out.get("formula_cols_changed", 0) + 1
        continue
      if rev == (t, c):
        out["reverse_col_changed"] = out.get("reverse_col_changed", 0) + 1
        continue
      i = [k for k in range(len(before[t]["ids"])) if before[t]["cols"][c][k] != after[t]["cols"][c][k]][0]
      out["bad"].append(("type change alters a data cell of another column",
                         "%s -> %s changed %s[%s].%s from %r to %r" % (src, dst, t, before[t]["ids"][i], c,
                                                                      before[t]["cols"][c][i], after[t]["cols"][c][i]), rp))
  # ---- stored actions touch only the column, formula columns, the reverse column, metadata
  for a in res.stored:
    name, t = a[0], a[1]
    if t.startswith("_grist_"):
      continue
    if name == "ModifyColumn" and (t, a[2]) == (tid, cid):
      continue
    if name in ("BulkUpdateRecord", "UpdateRecord"):
      badc = [c for c in a[3] if not ((t, c) == (tid, cid) or rev == (t, c) or (sch.get(t, {}).get(c) or [0, 0])[1])]
      if not badc:
        continue
      out["bad"].append(("stored action of a type change updates another data column", "%s %s %r" % (name, t, badc), rp))
      continue
    out["bad"].append(("unexpected stored action kind in a type change", "%s %s" % (name, t), rp))
  return out


# ------------------------------------------------------------------------------ cases
def cases(ck):
  """groups: one document per source type (several columns, one per (target type, path))."""
  rng = ck.rng
  ins = inputs()
  quick = ck.tier == "quick"
  key = [None, True, 0, 1, 2, 2 ** 31, 1.0, 1.5, float("nan"), "", "a", "1", "true", "2020-01-01", "[1, 2]", "[\"a\"]", "[]", "\"abc\"", "{\"a\": 1}",
         ["L", 1, 2], ["L", "a"], ["L", True, 2], ["L", 0.0], ["d", 86400.0], ["E", "ValueError", "boom"], 99, 3]
  out = []
  rounds = 1 if quick else 6
  for rnd in range(rounds):
    for src in TYPES:
      pool = [e for e in ins if not (src.startswith("Ref") and has_negative(e))]
      cols = []
      for dst in TYPES:
        if src == dst:
          continue
        for path in ("ModifyColumn", "UpdateRecord"):
          if quick and rng.random() < 0.5:
            continue
          if quick:
            vals = rng.sample(key, 5) + rng.sample(pool, 9)
          elif rnd == 0:
            vals = list(key) + rng.sample(pool, 40)
          else:
            vals = rng.sample(pool, 70)
          if src.startswith("Ref"):
            vals = [v for v in vals if not has_negative(v)]
          # values that compare and hash equal but are of different types, in a random order: a
          # conversion that is not applied to each cell separately (caching, grouping) mixes them up
          alias = [True, 1, 1.0, False, 0, 0.0, -0.0]
          rng.shuffle(alias)
          vals = vals + alias
          cols.append({"dst": dst, "path": path, "vals": vals})
      for k in range(0, len(cols), 10):
        out.append({"src": src, "cols": cols[k:k + 10]})
  # Any column holding an int beyond the float range (the OverflowError finding)
  for dst in ("Numeric", "Date", "DateTime:UTC", "Int", "Text", "RefList:T"):
    out.append({"src": "Any", "cols": [{"dst": dst, "path": "ModifyColumn", "vals": [1, 10 ** 400, "x"]}]})
  # two-way references
  refv = [[1, 2, 0, 3], [1, 1, 0, 3], [4, 0, 0, 0], [2, 2, 2, 2]]
  listv = [[["L", 1, 2], ["L", 2], None, ["L", 3]], [["L", 1], ["L", 2], ["L", 3], ["L", 4]], [None, None, ["L", 4, 1], None]]
  paths = ("ModifyColumn", "UpdateRecord")
  for pi, path in enumerate(paths):
    for vi, v in enumerate(refv):
      if quick and (vi + pi) % 2:
        continue
      for dst, target in (("RefList:T", None), ("Ref:S", "reverse"), ("Text", None), ("Int", "reverse")):
        out.append({"src": "Ref:T", "linked": True, "cols": [{"dst": dst, "path": path, "vals": v, "target": target}]})
    for vi, v in enumerate(listv):
      if quick and (vi + pi) % 2:
        continue
      for dst, target in (("Ref:T", None), ("Ref:S", "reverse")):
        out.append({"src": "RefList:T", "linked": True, "cols": [{"dst": dst, "path": path, "vals": v, "target": target}]})
  return out


def compare(mo, real):
  if "error" in mo and "cell" not in mo:
    return "model error: %s" % mo["error"]
  cell = mo["cell"]
  model_rejects = isinstance(cell, dict) and "error" in cell and "t" not in cell
  if real.get("rejected"):
    return None        # a refusal concerns the whole column; checked per scenario
  if model_rejects:
    return "model says the action is aborted (%s) but the engine applied it" % cell["error"]
  if mo["enc"] != real["enc"]:
    return "cell differs: model %s real %s (old %s)" % (json.dumps(mo["enc"])[:200], json.dumps(real["enc"])[:200], real["old"])
  if mo["right"] != real["right"]:
    return "is_right_type differs: model %r real %r (old %s)" % (mo["right"], real["right"], real["old"])
  return None


def process(ck, results):
  """Feed the outcomes to ck; returns first correspondence mismatch."""
  mism = None
  ops, back = [], []
  for res in results:
    ck.evaluated(max(1, res["cells"]))
    c = res["case"]
    if res.get("setup_error"):
      ck.count("setup_rejected"); continue
    ck.count("scenarios")
    ck.count("path:" + c["path"])
    if res["rejected"]:
      ck.count("rejected:" + res["rejected"][0])
    for k in ("formula_cols_changed", "reverse_col_changed"):
      if res.get(k): ck.count(k, res[k])
    if res.get("meta_changed"): ck.count("scenarios_with_metadata_change")
    if res["changed"]:
      ck.nontrivial_case([c["src"], c["dst"], c["path"], json.dumps(c["vals"], default=str)])
      ck.sample({"src": c["src"], "dst": c["dst"], "path": c["path"], "cells_changed": res["changed"]})
    for sig, detail, rp in res["bad"]:
      ck.violation(sig, detail, rp)
    for op, real in zip(res["ops"], res["real"]):
      ops.append(op); back.append((res, real))
  model = ck.driver(ops)
  by_scn = {}
  for (res, real), mo in zip(back, model):
    ck.count("cells_tied_to_model")
    d = compare(mo, real)
    cell = mo.get("cell")
    if isinstance(cell, dict) and "error" in cell and "t" not in cell:
      by_scn.setdefault(id(res), [res, 0])[1] += 1
    if d:
      ck.count("model_impl_disagreements")
      if mism is None:
        mism = dict(res["rp"], diff=d)
  for res in results:
    if res.get("setup_error"):
      continue
    model_aborts = id(res) in by_scn
    legit = res["rejected"] and any(m in res["rejected"][1] for m in LEGIT_REFUSALS)
    if bool(res["rejected"]) != model_aborts and not legit and res["ops"]:
      ck.count("model_impl_disagreements")
      if mism is None:
        mism = dict(res["rp"], diff="engine %s, model %s" % ("rejects %r" % (res["rejected"],) if res["rejected"] else "applies",
                                                              "aborts" if model_aborts else "applies"))
  return mism


def run(ck):
  ck.rule = ("all 110 ordered pairs over {Text, Int, Numeric, Bool, Date, DateTime:UTC, Choice, ChoiceList, Ref:T, RefList:T, Any} x both "
             "paths (ModifyColumn user action, UpdateRecord on _grist_Tables_column) on a live engine; column contents drawn from "
             "the C22 adversarial value tables as far as they are storable (sent encoded, so the source type's own conversion "
             "decides what is stored); two-way reference pairs (AddReverseColumn) with Ref<->RefList switches of either side and "
             "refused switches to non-reference types; an Any column holding 10**400. non-trivial = scenario in which at least "
             "one cell's encoding changed; distinct by (source type, target type, path, contents)")
  ck.assumptions = [
    "the oracle's conversion = usertypes.<NewType>.convert on the old raw value, after the adaptation the reference column classes "
    "document (Ref: first element of a list; RefList: [n] for a non-zero int n); comparison of encodings normalises int/float (ed.ntok)",
    "the Lean model's parameters (float(), repr, json.loads, iso8601, str() of compound values) are computed per cell with the real primitives",
    "DateTime columns use zone UTC; reference columns target a 4-row table T (ids beyond it are dangling references)",
    "documented refusals (two-way reference to non-reference type, UNIQUE constraint) are outside the property when the document is unchanged",
  ]
  ck.lean(["GristProps.C23"])
  allc = cases(ck)
  mism = None
  pool = None
  if ck.tier != "quick":
    import multiprocessing
    pool = multiprocessing.get_context("fork").Pool(min(6, os.cpu_count() or 1))
  try:
    B = 24
    for b0 in range(0, len(allc), B):
      batch = allc[b0:b0 + B]
      results = pool.map(run_group, batch, chunksize=1) if pool else [run_group(g) for g in batch]
      m = process(ck, [r for rs in results for r in rs])
      mism = mism or m
  finally:
    if pool:
      pool.close(); pool.join()
  if mism and not ck.has_impl_violation():
    ck.broken("correspondence doModifyColumn cell vs Grist.PyVal.modifyCell",
              "model and engine differ and the property's clauses hold (up to known findings) on all explored inputs: %s" % mism["diff"],
              mism)
  replay_witnesses(ck)


WITNESSES = [
  ({"src": "Any", "cols": [{"dst": "RefList:T", "path": "ModifyColumn", "vals": [["L", True, 2]]}]}, SIG_COERCED),
  ({"src": "Any", "cols": [{"dst": "RefList:T", "path": "ModifyColumn", "vals": [2 ** 31]}]}, SIG_REPARSED),
  ({"src": "Any", "cols": [{"dst": "Numeric", "path": "ModifyColumn", "vals": [10 ** 400]}]}, SIG_OVERFLOW),
]

def replay_witnesses(ck):
  for group, sig in WITNESSES:
    res = run_group(group)[0]
    ok = any(b[0] == sig for b in res["bad"])
    c = group["cols"][0]
    ck.obligations.append(("witness replays on real code: %s %s -> %s" % (c["vals"], group["src"], c["dst"]), ok,
                           "" if ok else "the Lean negation witness no longer fails on the real code; remove the known "
                           "finding and prove the full statement"))
    for s, detail, rp in res["bad"]:
      ck.violation(s, detail, rp)


def replay(ck, rp):
  r = rp["replay"] or {}
  if "group" not in r:
    print("replay: nothing to replay (%s)" % (rp.get("broken") or rp.get("signature")))
    ck.lean(["GristProps.C23"])
    return
  group, idx = r["group"], r.get("index", 0)
  outs = run_group(dict(group, cols=group["cols"][:idx + 1]))
  res = outs[-1]
  case = res["case"]
  ck.evaluated()
  print("replay: column %d of a %s document: %s -> %s via %s on %d cells: rejected=%r findings=%r" % (
    idx, case["src"], case["src"], case["dst"], case["path"], len(case["vals"]), res["rejected"],
    [b[0] for b in res["bad"]] or "property holds"))
  for sig, detail, rp2 in res["bad"]:
    print("  ", detail[:300])
    ck.violation(sig, detail, rp2)
  if "diff" in r:
    m = process(ck, [res])
    print("replay: model vs engine: %s" % (m["diff"] if m else "agree"))
    if m and not res["bad"]:
      ck.broken("correspondence doModifyColumn cell vs Grist.PyVal.modifyCell", m["diff"], r)
  ck.nontrivial_case(json.dumps(case, default=str)); ck.nontrivial_case("replay")
  ck.lean(["GristProps.C23"])
