"""
C37  Text patches map back to the right source positions  (sandbox/grist/textbuilder.py).

Theorems: lean/GristProps/C37.lean about GristModel/Textbuilder.lean (proof development in
GristProofs/Textbuilder.lean): sorted_is_ascending, replacer_text_eq_applyPatches,
replacer_refuses_stale_patch, only_patched_changed, input_pos_exact, replacer_mapback_copied,
input_pos_at_deletion, input_pos_exact_full_is_false (+ witness_*), combiner_inside,
combiner_spanning_refused, combiner_accept_sound, tree_mapback_exact, tree_mapback_sound,
tree_mapback_never_asserts, tree_spanning_refused, map_back_offset_exact.

Known finding (unchanged tree): a patch of the produced text that ENDS exactly where a Replacer
deleted text (patch with new_text '') is mapped back to a range that also covers the deleted source
characters (get_input_pos uses bisect_right for the end position as well).  The Lean witness
(witness_mapback) is replayed on the real code in every run (case "finding").

Interpretation (read with the module's docstrings):
  * "set of non-overlapping patches": every patch satisfies 0 <= start <= end <= len(text) and
    old_text == text[start:end], and after Python's `sorted` each patch ends no later than the next
    one starts (several insertions at one point are allowed; they are applied in tuple order, which
    is what "we have to go through patches in sorted order" documents).
  * "the produced text equals applying the patches directly": an independent right-to-left splice.
  * "mapping a patch of the produced text back": the patch must itself fit the produced text.  The
    claim "covers exactly the corresponding source characters" is demanded for patches whose
    characters were all COPIED from one source (a Text leaf), contiguously: then the result must be
    that leaf, with [start,end) = exactly those characters (and old_text equal to them).  A patch
    whose characters come from two different parts of a Combiner must be refused (ValueError); a
    patch inside a plain-string part yields None (documented by the code).  For a patch that
    touches text a Replacer produced (new_text) the property has no "corresponding source
    characters"; there only the universal facts are demanded (the result names a leaf of the tree,
    its old_text is that leaf's slice at the returned range, new_text is preserved).
  * a patch that does not fit the produced text is refused (ValueError; AssertionError by a bare Text).
  * Python's negative-index wrap-around is modelled and compared (model == code) but such patches
    are outside the property (no oracle expectation).

Tie: real textbuilder objects vs the Lean model on identical trees/patches: get_text() or the
     constructor's exception, every node's offset tables, every map_back_patch result/exception,
     root.map_back_offset(x) for every x in -2..len+2 when the root is a Replacer.
Search (direct oracle on the real code): character-provenance reference written independently of
     the model (no offset tables, no bisect), plus the round trip "apply the mapped-back patch to the
     leaf, rebuild, compare with applying the patch to the output".
"""
import hashlib
import itertools
import json
import os

ALPHABETS = ["ab", "abc", "aé", "x\U0001F600ж", "a \n", "$r.", "中ß"]
NEWS = ["", "X", "XY", "é", "\U0001F600Z", "rec.", "QQQ"]

KNOWN_SIG = "output patch ends exactly at a pure-deletion point of a Replacer"


# ----------------------------------------------------------------------------- trees
def T_text(s, v): return {"k": "text", "s": s, "v": v}
def T_raw(s, as_bytes=False): return {"k": "raw", "s": s, "bytes": bool(as_bytes)}
def T_repl(inner, ps): return {"k": "repl", "in": inner, "ps": [list(p) for p in ps]}
def T_comb(parts): return {"k": "comb", "parts": parts}


def build_real(tb, t, nodes):
  """Construct the real objects bottom-up (children first, left to right); `nodes` collects the
  objects in pre-order."""
  k = t["k"]
  slot = len(nodes)
  nodes.append(None)
  if k == "text":
    o = tb.Text(t["s"], t["v"])
  elif k == "raw":
    o = t["s"].encode("utf8") if t.get("bytes") else t["s"]
  elif k == "repl":
    inner = build_real(tb, t["in"], nodes)
    o = tb.Replacer(inner, [tb.Patch(*p) for p in t["ps"]])
  else:
    parts = [build_real(tb, p, nodes) for p in t["parts"]]
    o = tb.Combiner(parts)
  nodes[slot] = o
  return o


def real_tables(tb, nodes):
  out = []
  for o in nodes:
    if isinstance(o, tb.Replacer):
      out.append([list(o._input_offsets), list(o._output_offsets)])
    elif isinstance(o, tb.Combiner):
      out.append(list(o._offsets))
    else:
      out.append(None)
  return out


def canon_result(r):
  if r is None:
    return None
  text, value, p = r
  return [text, value, [p.start, p.end, p.old_text, p.new_text]]


def real_eval(tb, tree, patches, offsets=()):
  """What the real code does: {'text': str|{'error'}, 'tables': [...], 'maps': [...], 'offs': [...]}."""
  nodes = []
  try:
    root = build_real(tb, tree, nodes)
    text = root.get_text()
  except Exception as e:   # pylint: disable=broad-except
    return {"text": {"error": type(e).__name__}}, None
  maps = []
  for p in patches:
    try:
      maps.append(canon_result(root.map_back_patch(tb.Patch(*p))))
    except Exception as e:   # pylint: disable=broad-except
      maps.append({"error": type(e).__name__})
  offs = []
  for x in offsets:
    try:
      offs.append(root.map_back_offset(x))
    except Exception as e:   # pylint: disable=broad-except
      offs.append({"error": type(e).__name__})
  return {"text": text, "tables": real_tables(tb, nodes), "maps": maps, "offs": offs}, root


# ----------------------------------------------------------------------------- reference
class Ref(object):
  """Independent reference: produced text, per-character provenance and deletion marks.
  prov[i] = ('L', leaf value, index) for a character copied from a Text leaf,
            ('R', raw id, index) for a character of a plain-string part, None for new_text."""
  def __init__(self, text, prov, marks, ok=True):
    self.text, self.prov, self.marks, self.ok = text, prov, marks, ok


def patches_wellformed(text, ps):
  n = len(text)
  for (s, e, old, new) in ps:
    if not (isinstance(s, int) and isinstance(e, int) and 0 <= s <= e <= n):
      return False
    if text[s:e] != old:
      return False
  srt = sorted(tuple(p) for p in ps)
  for a, b in zip(srt, srt[1:]):
    if a[1] > b[0]:
      return False
  return True


def ref_build(t, info, counter):
  """Returns Ref or None when the tree is not well-formed (then the property makes no claim)."""
  k = t["k"]
  if k == "text":
    r = Ref(t["s"], [("L", t["v"], i) for i in range(len(t["s"]))], set())
  elif k == "raw":
    counter[0] += 1
    rid = counter[0]
    if t.get("bytes"):
      info.setdefault("bytes_ids", set()).add(rid)
    r = Ref(t["s"], [("R", rid, i) for i in range(len(t["s"]))], set())
  elif k == "comb":
    text, prov, marks = "", [], set()
    for p in t["parts"]:
      sub = ref_build(p, info, counter)
      if sub is None:
        return None
      off = len(text)
      marks |= set(m + off for m in sub.marks)
      text += sub.text
      prov += sub.prov
    r = Ref(text, prov, marks)
  else:
    if t["in"]["k"] == "raw":
      return None
    sub = ref_build(t["in"], info, counter)
    if sub is None or not patches_wellformed(sub.text, t["ps"]):
      return None
    items = list(zip(sub.text, sub.prov))
    # apply the patches directly, right to left, so earlier positions stay valid
    for (s, e, old, new) in sorted((tuple(p) for p in t["ps"]), reverse=True):
      items = items[:s] + [(c, None) for c in new] + items[e:]
    # deletion marks: images of the inner marks through the copied segments + this node's own
    asc = sorted(tuple(p) for p in t["ps"])
    segs = []   # (a, b, delta): input [a,b] <-> output [a+delta, b+delta]
    a, delta = 0, 0
    marks = set()
    for (s, e, old, new) in asc:
      segs.append((a, s, delta))
      if s < e and new == "":
        marks.add(s + delta)
      delta += len(new) - (e - s)
      a = e
    segs.append((a, len(sub.text), delta))
    for m in sub.marks:
      for (a, b, d) in segs:
        if a <= m <= b:
          marks.add(m + d)
    r = Ref("".join(c for c, _ in items), [p for _, p in items], marks)
  info[id(t)] = r
  return r


def leaves_of(t, acc):
  if t["k"] == "text":
    acc[t["v"]] = t
  elif t["k"] == "repl":
    leaves_of(t["in"], acc)
  elif t["k"] == "comb":
    for p in t["parts"]:
      leaves_of(p, acc)
  return acc


def run_of(provs):
  """provs: non-empty list of provenance entries.  Returns ('same', kind, id, first, last+1) when
  all come from one source contiguously, ('multi',) when they come from >= 2 different sources
  (all copied), else ('other',)."""
  if any(p is None for p in provs):
    return ("other",)
  ids = set((p[0], p[1]) for p in provs)
  if len(ids) > 1:
    return ("multi",)
  idx = [p[2] for p in provs]
  if all(b == a + 1 for a, b in zip(idx, idx[1:])):
    return ("same", provs[0][0], provs[0][1], idx[0], idx[-1] + 1)
  return ("other",)


def rebuild_with_edit(t, info, leaf_v, i, j, new_text):
  """The tree after replacing leaf[i:j] by new_text, every Replacer above keeping its patches at the
  same characters (patches after the edit are shifted).  None when some patch overlaps the edit."""
  k = t["k"]
  if k == "text":
    if t["v"] != leaf_v:
      return t
    return T_text(t["s"][:i] + new_text + t["s"][j:], t["v"])
  if k == "raw":
    return t
  if k == "comb":
    parts = []
    for p in t["parts"]:
      q = rebuild_with_edit(p, info, leaf_v, i, j, new_text)
      if q is None:
        return None
      parts.append(q)
    return T_comb(parts)
  inner = rebuild_with_edit(t["in"], info, leaf_v, i, j, new_text)
  if inner is None:
    return None
  sub = info[id(t["in"])]
  pos = [x for x, p in enumerate(sub.prov) if p is not None and p[0] == "L" and p[1] == leaf_v and i <= p[2] < j]
  if i == j:
    # insertion point: just before the character leaf[i] (leaf[i-1] is its left neighbour here)
    after = [x for x, p in enumerate(sub.prov) if p is not None and p[0] == "L" and p[1] == leaf_v and p[2] == i]
    if not after:
      return None
    a = b = after[0]
  else:
    if len(pos) != j - i or pos != list(range(pos[0], pos[0] + len(pos))):
      return None
    a, b = pos[0], pos[-1] + 1
  d = len(new_text) - (b - a)
  ps = []
  for (s, e, old, new) in sorted(tuple(p) for p in t["ps"]):
    if e <= a:
      ps.append([s, e, old, new])
    elif s >= b:
      ps.append([s + d, e + d, old, new])
    elif s == e and new == "":
      continue
    else:
      return None
  if sorted(tuple(p) for p in ps) != [tuple(p) for p in ps]:
    return None    # deleting the text between two insertion points makes their order ambiguous
  return T_repl(inner, ps)


def oracle_patch(tb, tree, info, ref, root, patch, got):
  """Property clauses for ONE patch of the produced text, evaluated on the real result `got`
  (canonical form).  Returns None or (signature, detail)."""
  s, e, old, new = patch
  n = len(ref.text)
  if not (0 <= s <= e <= n):
    return None          # outside the property (slices wrap/clamp); model==code still compared
  is_err = isinstance(got, dict)
  if ref.text[s:e] != old:
    want = "AssertionError" if tree["k"] == "text" else "ValueError"
    if not (is_err and got["error"] == want):
      return ("patch that does not fit the produced text is not refused", "patch %r got %r" % (patch, got))
    return None
  leaves = leaves_of(tree, {})
  # universal facts about an accepted patch
  if got is not None and not is_err:
    text, value, (ps, pe, pold, pnew) = got
    if value not in leaves or leaves[value]["s"] != text:
      return ("map-back names a text that is not a leaf of the tree", "patch %r got %r" % (patch, got))
    if text[ps:pe] != pold:
      return ("mapped-back old_text is not the leaf's slice at the returned range", "patch %r got %r" % (patch, got))
    if pnew != new:
      return ("mapped-back patch changed new_text", "patch %r got %r" % (patch, got))
  # exactness for copied text
  if s < e:
    run = run_of(ref.prov[s:e])
  elif 0 < s < n:
    run = run_of(ref.prov[s - 1:s + 1])
    if run[0] == "same":
      run = ("same", run[1], run[2], run[4] - 1, run[4] - 1)
    else:
      run = ("other",)
  else:
    run = ("other",)
  at_mark = (s < e and e in ref.marks)
  if is_err and got["error"] != "ValueError":
    # a bytes part of a Combiner has no map_back_patch (AttributeError): modelled, outside the property
    in_plain = run[0] == "same" and not (run[1] == "R" and run[2] in info.get("bytes_ids", ()))
    if not (got["error"] == "AttributeError" and info.get("bytes_ids") and not in_plain):
      return ("map_back_patch raised %s" % got["error"], "patch %r" % (patch,))
    return None
  if run[0] == "multi":
    if not is_err:
      return ("patch spanning two inputs is not refused", "patch %r got %r" % (patch, got))
    return None
  if run[0] != "same":
    return None
  _, kind, ident, i, j = run
  if kind == "R":
    if ident in info.get("bytes_ids", ()):
      return None
    if got is not None:
      if at_mark:
        return (KNOWN_SIG, "patch %r (inside a plain-string part) got %r" % (patch, got))
      return ("patch inside a plain-string part does not yield None", "patch %r got %r" % (patch, got))
    return None
  want = [leaves[ident]["s"], ident, [i, j, old, new]]
  if got != want:
    if at_mark:
      return (KNOWN_SIG, "patch %r of %r: expected source range %r, got %r" % (patch, ref.text, want, got))
    if is_err:
      return ("patch inside copied text of one input is refused", "patch %r expected %r" % (patch, want))
    return ("map-back of a patch inside copied text returns the wrong source range",
            "patch %r expected %r got %r" % (patch, want, got))
  # round trip on the real code
  newtree = rebuild_with_edit(tree, info, ident, i, j, new)
  if newtree is None:
    return ("rt-skip", None)
  try:
    nodes = []
    rebuilt = build_real(tb, newtree, nodes).get_text()
  except Exception as ex:   # pylint: disable=broad-except
    return ("rebuilding after applying the mapped-back patch raises", "patch %r: %s" % (patch, type(ex).__name__))
  direct = ref.text[:s] + new + ref.text[e:]
  if rebuilt != direct:
    return ("applying the mapped-back patch to the source and rebuilding differs from patching the output",
            "patch %r rebuilt %r direct %r" % (patch, rebuilt, direct))
  return ("rt-ok", None)


def oracle_tree(tree, real, ref):
  """Clauses about construction / get_text."""
  if isinstance(real["text"], dict):
    return ("constructing builders from valid non-overlapping patches raises", real["text"]["error"])
  if real["text"] != ref.text:
    return ("produced text differs from applying the patches directly",
            "got %r expected %r" % (real["text"], ref.text))
  return None


BOTTOM = 10 ** 6


def oracle_offsets(tree, ref, offsets, got):
  """Replacer.map_back_offset through a chain of Replacers: the position of every character that was
  copied from the chain's input maps back to that character's position in the input, and the end
  of the produced text maps back to the end of the input."""
  chain = []
  t = tree
  while t["k"] == "repl":
    chain.append(t["ps"])
    t = t["in"]
  bottom = ref_build(t, {}, [0])
  rel = T_text(bottom.text, BOTTOM)
  for ps in reversed(chain):
    rel = T_repl(rel, ps)
  relref = ref_build(rel, {}, [0])
  n = len(relref.text)
  for x, g in zip(offsets, got):
    if 0 <= x < n and relref.prov[x] is not None:
      want = relref.prov[x][2]
    elif x == n:
      want = len(bottom.text)
    else:
      continue
    if g != want:
      return ("map_back_offset of a copied character's position is not its source position",
              "offset %r of %r: expected %r got %r" % (x, relref.text, want, g))
  return None


# ----------------------------------------------------------------------------- generators
def rand_text(rng, alpha, lo=0, hi=6):
  return "".join(rng.choice(alpha) for _ in range(rng.randint(lo, hi)))


def rand_valid_patches(rng, text, alpha):
  """Random non-overlapping patch set over `text`: insertions, deletions, same-length and
  length-changing replacements, adjacent patches, no-ops, several insertions at one point."""
  n = len(text)
  ps = []
  pos = 0
  dens = rng.choice([0.15, 0.35, 0.7])
  while pos <= n:
    if rng.random() < dens:
      ln = rng.choice([0, 0, 1, 1, 2, 3])
      e = min(n, pos + ln)
      kind = rng.random()
      if kind < 0.25:
        new = ""
      elif kind < 0.5:
        new = "".join(rng.choice(alpha + "XY") for _ in range(e - pos))   # same length
      else:
        new = rng.choice(NEWS)
      ps.append([pos, e, text[pos:e], new])
      if e == pos and rng.random() < 0.7:
        pos += 1 if rng.random() < 0.8 else 0
      else:
        pos = e if rng.random() < 0.5 else e + 1
    else:
      pos += 1
    if len(ps) >= 6:
      break
  rng.shuffle(ps)
  return ps


def gen_tree(rng, depth, alpha, next_id, malformed=False):
  r = rng.random()
  if depth <= 0 or r < 0.2:
    next_id[0] += 1
    return T_text(rand_text(rng, alpha), next_id[0])
  if r < 0.6:
    inner = gen_tree(rng, depth - 1, alpha, next_id, malformed)
    if malformed and rng.random() < 0.05:
      inner = T_raw(rand_text(rng, alpha))
    txt = ref_build(inner, {}, [0])
    base = txt.text if txt is not None else rand_text(rng, alpha)
    ps = rand_valid_patches(rng, base, alpha)
    if malformed and rng.random() < 0.6:
      ps = mangle_patches(rng, ps, base, alpha)
    return T_repl(inner, ps)
  parts = []
  for _ in range(rng.choice([0, 1, 2, 2, 3, 3, 4])):
    q = rng.random()
    if q < 0.2:
      parts.append(T_raw(rand_text(rng, alpha, 0, 3), as_bytes=rng.random() < 0.3))
    elif q < 0.3:
      next_id[0] += 1
      parts.append(T_text("", next_id[0]))
    else:
      parts.append(gen_tree(rng, depth - 1, alpha, next_id, malformed))
  return T_comb(parts)


def mangle_patches(rng, ps, base, alpha):
  ps = [list(p) for p in ps]
  n = len(base)
  for _ in range(rng.randint(1, 2)):
    k = rng.random()
    if k < 0.3 and ps:
      p = rng.choice(ps); p[2] = p[2] + rng.choice(alpha)           # wrong old_text
    elif k < 0.55:
      s = rng.randint(0, n); e = rng.randint(s, n)                   # probably overlapping
      ps.append([s, e, base[s:e], rng.choice(NEWS)])
    elif k < 0.7:
      s = rng.randint(-n - 2, n + 2); e = rng.randint(-n - 2, n + 3)  # negative / out of range / inverted
      ps.append([s, e, base[s:e], rng.choice(NEWS)])
    elif k < 0.85 and ps:
      ps.append(list(rng.choice(ps)))                                # duplicate
    elif ps:
      p = rng.choice(ps); p[1] = p[1] + rng.choice([-1, 1, 2])       # end moved, old_text stale or clamped
  return ps


def patches_for(rng, text, alpha, exhaustive_upto=7):
  """Patches of the produced text: every (start,end) when short, else random; plus a malformed
  stream (wrong old_text, negative, out of range, inverted)."""
  n = len(text)
  out = []
  if n <= exhaustive_upto:
    for s in range(n + 1):
      for e in range(s, n + 1):
        out.append([s, e, text[s:e], rng.choice(NEWS)])
  else:
    for _ in range(40):
      s = rng.randint(0, n); e = min(n, s + rng.choice([0, 1, 1, 2, 3, 5]))
      out.append([s, e, text[s:e], rng.choice(NEWS)])
  for _ in range(4):
    s = rng.randint(-n - 2, n + 2); e = rng.randint(-n - 2, n + 3)
    old = text[s:e] if rng.random() < 0.7 else rand_text(rng, alpha, 0, 2)
    out.append([s, e, old, rng.choice(NEWS)])
  if n:
    s = rng.randint(0, n - 1)
    out.append([s, s + 1, text[s] + "!", "N"])
  return out


def all_patch_sets(text, news):
  """Every non-overlapping patch set over `text` with new_text from `news` (at most one insertion
  per point), as lists in ascending order."""
  n = len(text)
  def rec(pos, inserted):
    yield []
    for s in range(pos, n + 1):
      for e in range(s, n + 1):
        if s == e and s == pos and inserted:
          continue
        for new in news:
          if s == e and new == "":
            continue     # no-op patch: covered by the random stream
          for rest in rec(e, s == e):
            yield [[s, e, text[s:e], new]] + rest
  return rec(0, False)


def exhaustive_cases(ck):
  rng = ck.rng
  quick = ck.tier == "quick"
  news = ["", "X", "YZ"]
  base = "abcdef"
  maxn = 4 if quick else 5
  for n in range(0, maxn + 1):
    text = base[:n]
    keep = 1.0 if n <= 2 else (0.5 if n == 3 and quick else 1.0) if n <= 3 else (0.012 if quick else (0.4 if n == 4 else 0.03))
    for ps in all_patch_sets(text, news):
      if keep < 1.0 and rng.random() > keep:
        continue
      ps = [list(p) for p in ps]
      rng.shuffle(ps)
      yield "exh-replacer", T_repl(T_text(text, 1), ps), "abX"
  # Replacer over Replacer, tiny texts
  for n in range(0, 3 if quick else 4):
    text = base[:n]
    for ps1 in all_patch_sets(text, ["", "X"]):
      mid = ref_build(T_repl(T_text(text, 1), ps1), {}, [0]).text
      if len(mid) > 4:
        continue
      for ps2 in all_patch_sets(mid, ["", "Y"]):
        if rng.random() > (0.03 if quick else (0.5 if n <= 2 else 0.06)):
          continue
        yield "exh-replacer2", T_repl(T_repl(T_text(text, 1), ps1), ps2), "abY"
  # Combiner of up to 4 parts with lengths 0..2, each part a Text or a plain string
  for k in range(0, 5):
    for lens in itertools.product(range(3), repeat=k):
      for kinds in itertools.product("tr", repeat=k):
        if k == 4 and rng.random() > (0.2 if quick else 1.0):
          continue
        parts, off = [], 0
        for i, (ln, kd) in enumerate(zip(lens, kinds)):
          s = base[off:off + ln]; off += ln
          parts.append(T_text(s, i + 1) if kd == "t" else T_raw(s))
        yield "exh-combiner", T_comb(parts), "ab"


def random_cases(ck):
  rng = ck.rng
  n = 1000 if ck.tier == "quick" else 40000
  for i in range(n):
    alpha = rng.choice(ALPHABETS)
    malformed = rng.random() < 0.25
    depth = rng.choice([1, 2, 2, 3, 3, 4])
    tree = gen_tree(rng, depth, alpha, [0], malformed)
    if tree["k"] == "raw":
      continue
    yield ("rand-malformed" if malformed else "rand"), tree, alpha


FINDING_TREE = T_repl(T_text("abcd", 1), [[2, 3, "c", ""]])
FINDING_PATCH = [1, 2, "b", "X"]


def depth_of(t):
  if t["k"] == "repl":
    return 1 + depth_of(t["in"])
  if t["k"] == "comb":
    return 1 + max([depth_of(p) for p in t["parts"]] or [0])
  return 0


def offsets_for(tree, n):
  return list(range(-2, n + 3)) if tree["k"] == "repl" else []


def check_case(ck, tb, kind, tree, patches, offsets, model, mism):
  """Compare model and real code, evaluate the oracle.  Returns nothing; records in ck."""
  real, root = real_eval(tb, tree, patches, offsets)
  ck.evaluated()
  ck.count("trees:" + kind)
  info = {}
  ref = ref_build(tree, info, [0])
  # --- oracle
  if ref is not None:
    ck.count("trees wellformed")
    bad = oracle_tree(tree, real, ref)
    if bad:
      ck.violation(bad[0], bad[1], {"tree": tree, "patch": None})
    elif not isinstance(real["text"], dict):
      if offsets:
        ck.count("map_back_offset calls", len(offsets))
        bad = oracle_offsets(tree, ref, offsets, real["offs"])
        if bad:
          ck.violation(bad[0], bad[1], {"tree": tree, "patch": None, "offsets": offsets})
      shifted = False
      for p, got in zip(patches, real["maps"]):
        r = oracle_patch(tb, tree, info, ref, root, p, got)
        ck.count("patches")
        if isinstance(got, dict):
          ck.count("patches refused")
        elif got is None:
          ck.count("patches -> None (plain string part)")
        else:
          ck.count("patches mapped to a leaf")
          if got[2][0] != p[0] or got[0] != ref.text:
            shifted = True
        if r is None:
          continue
        if r[0] == "rt-ok":
          ck.count("round trips ok")
        elif r[0] == "rt-skip":
          ck.count("round trips skipped (replacer patch overlaps the edit)")
        else:
          ck.violation(r[0], r[1], {"tree": tree, "patch": p})
      if shifted and depth_of(tree) >= 1:
        ck.nontrivial_case(tree)
        if depth_of(tree) >= 2:
          ck.sample({"tree": tree, "text": real["text"], "first_maps": list(zip(patches, real["maps"]))[:3]})
  else:
    ck.count("trees malformed (no property claim)")
    if isinstance(real["text"], dict):
      ck.count("construction raised " + real["text"]["error"])
  if kind == "finding":
    # the witness of GristProps.C37.witness_mapback / input_pos_exact_full_is_false on the real code
    if real.get("maps") and real["maps"][0] == ["abcd", 1, [1, 3, "bc", "X"]]:
      ck.count("lean witness reproduced on the real code")
    else:
      ck.broken("lean witness not reproduced", "Replacer(Text('abcd'),[Patch(2,3,'c','')]).map_back_patch(Patch(1,2,'b','X')) "
                "no longer returns Patch(1,3,'bc','X'): %r" % (real.get("maps"),), {"tree": tree, "patch": patches[0]})
  # --- model vs code
  if "error" in model and not isinstance(model.get("text"), (str, dict)):
    model_c = {"driver_error": model["error"]}
  else:
    model_c = model
  if model_c != real:
    ck.count("model_impl_disagreements")
    if mism[0] is None:
      first = None
      if isinstance(real.get("text"), str) and isinstance(model_c.get("text"), str) and \
         real["text"] == model_c["text"] and real.get("tables") == model_c.get("tables"):
        for p, a, b in zip(patches, real["maps"], model_c.get("maps", [])):
          if a != b:
            first = {"patch": p, "impl": a, "model": b}
            break
      mism[0] = {"tree": tree, "impl_text": real["text"], "model_text": model_c.get("text", model_c),
                 "impl_tables": real.get("tables"), "model_tables": model_c.get("tables"),
                 "first_patch_mismatch": first, "offsets": offsets,
                 "impl_offs": real.get("offs"), "model_offs": model_c.get("offs")}


def run(ck):
  import textbuilder as tb
  ck.rule = ("exhaustive: every non-overlapping patch set (new_text in '',X,YZ) over a text of <=2 (quick; <=3 thorough) "
             "characters and a seeded sample of those over 3..4 (quick) / 4..5 (thorough) characters, sampled "
             "Replacer-over-Replacer on <=2/3 characters, Combiners of <=4 "
             "parts (Text / plain string, lengths 0..2) x every (start,end) patch of the produced text; random builder "
             "trees of depth <=4 over 7 alphabets (ASCII, Latin-1, CJK, astral) incl. a 25% malformed stream (overlapping / "
             "stale / negative / inverted patches, str under Replacer, bytes parts); non-trivial = tree with >=1 "
             "Replacer/Combiner level and at least one patch mapped back to a leaf at a shifted position or to a text "
             "different from the produced one; distinct by tree")
  ck.assumptions = [
    "strings are sequences of Unicode scalar values (no lone surrogates)",
    "Text values are opaque tags (distinct naturals in the generated trees)",
    "'non-overlapping' = in range, old_text fitting, sorted(patches) has end_i <= start_{i+1}",
    "exactness is demanded for patches whose characters were all copied contiguously from one leaf; "
    "for patches touching replacement text only: result is a leaf, old_text = leaf slice, new_text kept",
  ]
  ck.lean(["GristProps.C37"])
  thorough = ck.tier != "quick"

  def chunks():
    cur = []
    for kind, tree, alpha in itertools.chain(exhaustive_cases(ck), random_cases(ck)):
      ref = ref_build(tree, {}, [0])
      if ref is not None:
        patches = patches_for(ck.rng, ref.text, alpha)
        offsets = offsets_for(tree, len(ref.text))
      else:
        patches = patches_for(ck.rng, rand_text(ck.rng, alpha, 0, 8), alpha)
        offsets = offsets_for(tree, 6)
      cur.append((kind, tree, patches, offsets))
      if len(cur) >= 2500:
        yield cur
        cur = []
    cur.append(("finding", FINDING_TREE, [FINDING_PATCH, [2, 2, "", "X"], [0, 2, "ab", ""]], [0, 1, 2, 3]))
    yield cur

  mism = None
  if thorough:
    import multiprocessing
    pool = multiprocessing.get_context("fork").Pool(min(6, max(2, (os.cpu_count() or 2) // 2)))
    try:
      results = pool.imap(run_chunk, chunks())     # ordered => deterministic merge
      for acc in results:
        mism = merge_acc(ck, acc, mism)
    finally:
      pool.terminate()
  else:
    for ch in chunks():
      mism = merge_acc(ck, run_chunk(ch), mism)
  if mism and not ck.has_impl_violation():
    ck.broken("correspondence textbuilder vs Grist.Textbuilder",
              "model and implementation differ and the property's clauses hold on all explored inputs", mism)


class Acc(object):
  """Per-chunk collector with the part of the Check interface that check_case uses (picklable)."""
  def __init__(self):
    self.counters, self.n_eval, self.nontrivial, self.samples, self.violations = {}, 0, [], [], []
    self.brokens = []
  def broken(self, what, detail, replay=None):
    self.brokens.append((what, detail, replay))
  def count(self, key, n=1):
    self.counters[key] = self.counters.get(key, 0) + n
  def evaluated(self, n=1):
    self.n_eval += n
  def nontrivial_case(self, obj):
    self.nontrivial.append(hashlib.sha1(json.dumps(obj, sort_keys=True, default=str).encode()).hexdigest())
  def sample(self, obj):
    if len(self.samples) < 4:
      self.samples.append(obj)
  def violation(self, sig, detail, replay):
    if sum(1 for v in self.violations if v[0] == sig) < 3:
      self.violations.append((sig, detail, replay))


def run_chunk(cases):
  """Model (driver) and real code on one chunk of cases.  Returns (Acc, first mismatch)."""
  import textbuilder as tb
  from gx import common
  acc = Acc()
  ops = [{"m": "textbuilder", "tree": tree, "patches": patches, "offsets": offsets}
         for _, tree, patches, offsets in cases]
  models = common.Check.driver(None, ops)
  mism = [None]
  for (kind, tree, patches, offsets), model in zip(cases, models):
    check_case(acc, tb, kind, tree, patches, offsets, model, mism)
  return acc, mism[0]


def merge_acc(ck, res, mism):
  acc, m = res
  for k, v in acc.counters.items():
    ck.count(k, v)
  ck.evaluated(acc.n_eval)
  ck.nontrivial.update(acc.nontrivial)
  for smp in acc.samples:
    ck.sample(smp)
  for sig, detail, replay in acc.violations:
    ck.violation(sig, detail, replay)
  for what, detail, replay in acc.brokens:
    ck.broken(what, detail, replay)
  return mism if mism is not None else m


def replay(ck, rp):
  import textbuilder as tb
  r = rp["replay"]
  tree = r["tree"]
  patches = [r["patch"]] if r.get("patch") else []
  offsets = r.get("offsets") or []
  real, root = real_eval(tb, tree, patches, offsets)
  ck.evaluated()
  info = {}
  ref = ref_build(tree, info, [0])
  verdict = "property holds"
  if ref is None:
    verdict = "tree not well-formed: no property claim"
  else:
    bad = oracle_tree(tree, real, ref)
    if bad:
      verdict = bad
      ck.violation(bad[0], bad[1], {"tree": tree, "patch": None})
    else:
      if offsets:
        bad = oracle_offsets(tree, ref, offsets, real["offs"])
        if bad:
          verdict = bad
          ck.violation(bad[0], bad[1], {"tree": tree, "patch": None, "offsets": offsets})
      for p, got in zip(patches, real["maps"]):
        x = oracle_patch(tb, tree, info, ref, root, p, got)
        if x is not None and x[0] not in ("rt-ok", "rt-skip"):
          verdict = x
          ck.violation(x[0], x[1], {"tree": tree, "patch": p})
  print("replay: tree=%s patch=%r real=%s -> %s" % (json.dumps(tree), r.get("patch"), json.dumps(real), verdict))
  ck.nontrivial_case(tree); ck.nontrivial_case("replay")
  ck.lean(["GristProps.C37"])
