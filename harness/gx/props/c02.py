"""
C02  Emitted doc actions are a faithful persistence delta

Theorems: GristProps/C02.lean.  Tie: replica session P of the Lean model fed only the stored lists must equal
engine.fetch_table of every table after every bundle; every calc delta's `before` must equal the model's cell.
Search: independent Python interpreter of doc actions (harness PyReplica) vs the engine after every bundle.
"""
from gx.props import _hist

PROP = "C02"
CFG = {"oracles": ('replica', 'schema', 'undo'), "n_bundles": 12}
TIE_KINDS = ('stored', 'doc-P', 'replica-apply', 'calc-before', 'doc-M', 'driver')


def run(ck):
  ck.rule = 'seeded histories from InitNewDoc; an independent interpreter (Python) and the Lean replica see only `stored`; non-trivial = bundle with >=2 stored actions of >=2 kinds; distinct by user actions'
  ck.assumptions = ['user formulas are deterministic programs over the cells they read (generator emits only such formulas)', 'private / virtual columns (#lookup, #summary helpers) are not communicated and not modelled', 'documents compare by canonical encodings (equal_encoding): 1 and 1.0 are the same stored value, True and 1 are not']
  ck.lean(['GristProps.C02'])
  merged = _hist.run_histories(ck, CFG, n_quick=20, n_thorough=1600)
  post(ck, merged)
  _hist.report(ck, merged, PROP, TIE_KINDS)


def post(ck, merged):
  pass


def replay(ck, rp):
  ck.lean(['GristProps.C02'])
  _hist.replay_history(ck, rp, PROP, CFG["oracles"])
