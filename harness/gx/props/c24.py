"""
C24  Everything sent to Node is marshal-safe and round-trips.

Interpretation:
  (safe)   for any value v a formula can return or a cell can hold, `e = objtypes.encode_object(v)`
           is accepted by the sandbox transport: `marshal.dumps(e, 2)` (the version sandbox.py
           `_send_to_js` uses) succeeds, and e consists only of exact None/bool/int/float/str/list/
           tuple/dict-with-exact-str-keys (what app/common/marshal.ts can parse: no set, complex,
           bytes or subclass instances);
  (round)  `encode_object(decode_object(e))` is the same structure as e (same classes, floats
           bitwise, dict items in the same order);
  (reply)  engine level: for a formula returning such a value, the replies of `apply_user_actions`
           and `fetch_table` made through `main.run` on an in-memory `sandbox.Sandbox` are DATA
           messages (marshal succeeded), never EXC after the engine applied the change.
Recursion depth / cyclic containers: searched on the real code only (not in the model).

Theorems: lean/GristProps/C24.lean about lean/GristModel/PyVal.lean (encode, decode, MarshalSafe).
Tie:      real encode_object / decode_object vs the model through the driver (values, and a
          malformed stream of marshalled structures for decode_object).
"""
import io
import json
import marshal
import os
import struct

from gx import pyval
from gx.pyval import Ctx, Ser, build, strip, NotInUniverse

MARSHAL_VERSION = 2
SIG_SUBKEY = "marshal: dict whose key is a str-subclass instance is encoded with the key uncast"
SIG_DTMAX = "round trip: datetime whose float timestamp rounds past datetime.max decodes to OverflowError"
SIG_REPLY = "reply: formula returning a dict with a str-subclass key makes the apply_user_actions reply unmarshallable"


def walk_safe(e, depth=0):
  """None or a description of the first thing the transport / Node side cannot take."""
  if depth > 1900:
    return "nesting deeper than marshal's limit"
  t = type(e)
  if e is None or t in (bool, int, float, str):
    return None
  if t in (list, tuple):
    for x in e:
      r = walk_safe(x, depth + 1)
      if r: return r
    return None
  if t is dict:
    for k, x in e.items():
      if type(k) is not str:
        return "dict key of class %s" % type(k).__name__
      r = walk_safe(x, depth + 1)
      if r: return r
    return None
  return "object of class %s" % t.__name__


def enc_same(a, b):
  if a is b:
    return True
  if type(a) is not type(b):
    return False
  if type(a) is float:
    return struct.pack("<d", a) == struct.pack("<d", b)
  if type(a) in (list, tuple):
    return len(a) == len(b) and all(enc_same(x, y) for x, y in zip(a, b))
  if type(a) is dict:
    return list(a.keys()) == list(b.keys()) and all(type(k1) is type(k2) for k1, k2 in zip(a, b)) \
      and all(enc_same(a[k], b[k]) for k in a)
  try:
    return bool(a == b)
  except Exception:
    return False


def has_subclass_key(e):
  if type(e) in (list, tuple):
    return any(has_subclass_key(x) for x in e)
  if type(e) is dict:
    return any(isinstance(k, str) and type(k) is not str for k in e) or any(has_subclass_key(x) for x in e.values())
  return False


def has_overflowing_dt(e):
  import moment
  if type(e) in (list, tuple):
    if len(e) == 3 and e[0] == 'D':
      try:
        moment.ts_to_dt(e[1], moment.Zone(e[2]))
      except OverflowError:
        return True
      except Exception:
        return False
    return any(has_overflowing_dt(x) for x in e)
  if type(e) is dict:
    return any(has_overflowing_dt(x) for x in e.values())
  return False


def _short(v):
  try:
    return repr(v)[:80]
  except Exception:
    return "<%s>" % type(v).__name__

def _safe(fn, default, *a):
  """classification helpers must not die on cyclic / very deep structures"""
  try:
    return fn(*a)
  except RecursionError:
    return default


def oracle(v):
  """The property's clauses on the real code.  Returns (e, d, e2, bad, stage)."""
  import objtypes
  bad = []
  try:
    e = objtypes.encode_object(v)
  except BaseException as ex:
    return None, None, None, [("encode_object raises for a %s value" % type(v).__name__,
                               "%s: %s" % (_short(v), type(ex).__name__))], 0
  why = None
  try:
    marshal.dumps(e, MARSHAL_VERSION)
  except Exception as ex:
    why = "marshal.dumps: %s" % ex
  if why is None:
    try:
      why = walk_safe(e)
    except RecursionError:
      why = None
  if why:
    sig = SIG_SUBKEY if _safe(has_subclass_key, False, e) else "marshal: encoding of a %s value is not transportable (%s)" % (type(v).__name__, why)
    bad.append((sig, "encode_object(%s) = %s: %s" % (_short(v), _short(e), why)))
  try:
    d = objtypes.decode_object(e)
    e2 = objtypes.encode_object(d)
  except BaseException as ex:
    bad.append(("decode_object/encode_object raises on an encoded %s value" % type(v).__name__,
                "%s: %s" % (_short(e), type(ex).__name__)))
    return e, None, None, bad, 1
  try:
    eq = enc_same(e, e2)
  except RecursionError:
    eq = True     # too deep to compare here (search stream); marshal bytes compared instead
    try:
      eq = marshal.dumps(e, MARSHAL_VERSION) == marshal.dumps(e2, MARSHAL_VERSION)
    except Exception:
      pass
  if not eq:
    sig = SIG_DTMAX if _safe(has_overflowing_dt, False, e) else "round trip: %s value re-encodes differently" % type(v).__name__
    bad.append((sig, "encode_object(%s) = %s but after decode_object it encodes as %s" % (_short(v), _short(e), _short(e2))))
  return e, d, e2, bad, 2


def cases(ck):
  rng = ck.rng
  atoms = pyval.atom_table()
  conts = pyval.container_table()
  host = pyval.hostile_table()
  out = [(s, False) for s in atoms + conts] + [(s, True) for s in host]
  n = 2500 if ck.tier == "quick" else 70000
  pool = atoms + conts
  for _ in range(n):
    spec = pyval.random_spec(rng, pool)
    out.append((spec, pyval.is_hostile(spec)))
  return out


def malformed(ck):
  """Marshalled structures for decode_object: valid shapes, truncated ones, wrong classes."""
  rng = ck.rng
  base = [
    [], ['R'], ['R', 'T1'], ['R', 'T1', 3], ['R', 'T1', 3, 'extra'], ['R', None, None], ['r', 'T1', [1, 2]], ['r', 'T1'],
    ['r'], ['D'], ['D', 0], ['D', 0, 'UTC'], ['D', 1583649000.0, 'America/New_York'], ['D', 0, 'Nowhere/Land'],
    ['D', 'x', 'UTC'], ['D', None, 'UTC'], ['D', 1e18, 'UTC'], ['D', float('nan'), 'UTC'], ['D', float('inf'), 'UTC'],
    ['D', 253402300800.0, 'UTC'], ['D', 253402300799.0, 'UTC'], ['D', -62135596800.0, 'UTC'], ['D', -62135596801.0, 'UTC'],
    ['D', -62135596800.0, 'America/New_York'], ['D', 0, ['UTC']], ['D', True, 'UTC'], ['D', 0.5, 'Asia/Kolkata'],
    ['D', 0, 'UTC', 'extra'], ['D', 0, None], ['D', [0], 'UTC'],
    ['d'], ['d', 0], ['d', 86400], ['d', 86399], ['d', -1], ['d', -86400.0], ['d', 1.5], ['d', -0.5], ['d', 86399.9999999],
    ['d', float('nan')], ['d', float('inf')], ['d', -0.0], ['d', True], ['d', 'x'], ['d', None], ['d', 253402214400.0],
    ['d', 253402300800.0], ['d', -62135596800.0], ['d', -62135596801.0], ['d', 10**30], ['d', 1e300], ['d', [0]],
    ['d', 0, 'extra'],
    ['E'], ['E', 'ValueError'], ['E', 'ValueError', 'msg'], ['E', 'ValueError', None, 'details'],
    ['E', 'ValueError', 'm', 'd', {'u': 1}], ['E', 'ValueError', None, None, {'u': None}],
    ['E', 'ValueError', None, None, {'u': ['L', 1, ['d', 0]]}], ['E', 'ValueError', None, None, {}],
    ['E', 'ValueError', None, None, {'v': 1}], ['E', 'ValueError', None, None, None], ['E', 'ValueError', None, None, 0],
    ['E', 'ValueError', None, None, 'str'], ['E', 'ValueError', None, None, [1]], ['E', None], ['E', None, None, None, None],
    ['E', 'V', '', '', {'u': ['E', 'W']}], ['E', 1, 2, 3], ['E', 'a', 'b', 'c', {'u': 2}, 'extra'], ['E', ['L'], {'a': 1}],
    ['L'], ['L', 1, 'a', None], ['L', ['L', ['L']]], ['L', ['d', 0], ['R', 'T', 1]], ['L', ['X']], ['L', []],
    ['l', 1], ['l'], ['l', 1, {'raw': 'x'}], ['l', 1, 2, 3],
    ['O'], ['O', {}], ['O', {'a': 1}], ['O', {'a': ['d', 0], 'b': ['L', 1]}], ['O', 5], ['O', ['L']], ['O', None],
    ['O', {'a': 1}, 'extra'], ['O', {'u': {'x': ['d', 0]}}],
    ['P'], ['P', 1], ['C'], ['U'], ['U', 'repr'], ['U', ['x']], ['U', None, 2],
    ['X'], ['X', 1], [1], [None], [['L']], ['', 1], ['LL'], ['RR', 'T', 1], [1.5], [True],
    ('L', 1, 2), ('d', 0), (), {'a': ['d', 0]}, {'a': {'b': 1}}, {}, 5, 'L', None, True, 1.5, float('nan'),
  ]
  out = list(base)
  def rnd(depth):
    r = rng.random()
    if depth > 2 or r < 0.3:
      return rng.choice([0, 1, -5, 2**31, 86400 * rng.randint(-10, 10), 1.5, None, True, 'T1', 'UTC', 'x', '', float(rng.randint(-10**6, 10**6)),
                         rng.uniform(-1e9, 1e9)])
    code = rng.choice(['R', 'r', 'D', 'd', 'E', 'L', 'O', 'P', 'C', 'U', 'X', 'L', 'L'])
    n = rng.randint(0, 4)
    if code == 'O' and rng.random() < 0.8:
      return ['O', {rng.choice(['a', 'b', 'u', '']): rnd(depth + 1) for _ in range(rng.randint(0, 3))}]
    if code == 'D' and rng.random() < 0.7:
      return ['D', rng.choice([0, 1.5, rng.uniform(-7e10, 2.6e11), rng.randint(-10**10, 10**11)]),
              rng.choice(pyval.ZONES + ['Nope'])]
    if code == 'E' and rng.random() < 0.7:
      a = ['E', rng.choice(['ValueError', None, 'X'])]
      for i in range(rng.randint(0, 3)):
        a.append(rng.choice([None, 'm', '', rnd(depth + 1)]) if i < 2 else rng.choice([None, {'u': rnd(depth + 1)}, {}, rnd(depth + 1)]))
      return a
    return [code] + [rnd(depth + 1) for _ in range(n)]
  for _ in range(1000 if ck.tier == "quick" else 20000):
    out.append(rnd(0))
  return out


_ctx = None
def get_ctx():
  global _ctx
  if _ctx is None:
    _ctx = Ctx(pyval.ZONES[0])
  return _ctx


def eval_case(spec, hostile):
  ctx = get_ctx()
  v = build(spec, ctx)
  res = {"spec": spec, "op": None}
  ser = Ser(ctx)
  jv = None
  if not hostile:
    try:
      jv = ser.val(v)
    except NotInUniverse as ex:
      res["skip"] = str(ex)
  e, d, e2, bad, stage = oracle(v)
  res["bad"] = bad
  res["wrapped"] = stage > 0 and type(e) is list
  if jv is not None and stage == 2:
    try:
      je = ser.enc(e)
      jd = strip(ser.val(d))
      je2 = ser.enc(e2)
    except NotInUniverse as ex:
      res["skip"] = "result: %s" % ex
      return res
    try:
      marshal.dumps(e, MARSHAL_VERSION)
      safe = walk_safe(e) is None
    except (Exception, RecursionError):
      safe = False
    res["op"] = {"m": "pyval", "op": "decode_encode", "v": jv, "prim": pyval.prim_tables(ser, encs=[e])}
    res["real"] = {"e": je, "safe": safe, "d": jd, "e2": je2}
  return res


def eval_any(c):
  return eval_case(c[1], c[2]) if c[0] == "v" else eval_malformed(c[1])


def eval_malformed(e):
  import objtypes
  ctx = get_ctx()
  ser = Ser(ctx)
  res = {"enc": _short(e), "op": None, "bad": []}
  try:
    d = objtypes.decode_object(e)
  except BaseException as ex:
    res["bad"].append(("decode_object raises", "%s: %s" % (_short(e), type(ex).__name__)))
    return res
  try:
    je = ser.enc(e)
    jd = strip(ser.val(d))
    e2 = objtypes.encode_object(d)
    je2 = ser.enc(e2)
  except NotInUniverse as ex:
    res["skip"] = str(ex)
    return res
  res["op"] = {"m": "pyval", "op": "decode", "e": je, "prim": pyval.prim_tables(ser, encs=[e])}
  res["real"] = {"d": jd, "e2": je2}
  return res


import re
_ADDR = re.compile(r" at 0x[0-9a-f]+>")
def mask_addr(j):
  """default object reprs contain memory addresses of objects decode_object has just created
  (ReferenceLookup); the harness computes the repr parameter on its own instance, so addresses
  are masked before comparing"""
  return json.loads(_ADDR.sub(" at 0xADDR>", json.dumps(j)))

def compare(model, real, keys):
  if "error" in model:
    return "model error: %s" % model["error"]
  for k in keys:
    a = strip(model[k]) if k == "d" else model[k]
    if a != real[k] and mask_addr(a) != mask_addr(real[k]):
      return "%s differs: model %s real %s" % (k, json.dumps(a)[:300], json.dumps(real[k])[:300])
  return None


# ------------------------------------------------------------------------------ engine level
FORMULAS = [
  ("subkey", "{type('S', (str,), {})('k'): 1}"),
  ("substr", "type('S', (str,), {})('x')"),
  ("subint", "type('I', (int,), {})(3)"),
  ("subfloat", "type('F', (float,), {})(1.5)"),
  ("intenum", "__import__('enum').IntEnum('E', 'a b').a"),
  ("badbytes", "b'\\xff'"),
  ("bytes", "b'abc'"),
  ("intkeys", "{1: 2}"),
  ("set", "{1, 2}"),
  ("bigint", "2 ** 70"),
  ("nan", "float('nan')"),
  ("inf", "[float('inf'), -0.0]"),
  ("nested", "[[1, (2, {'a': [None, True, 1.5, 'x']})]]"),
  ("stdtz", "__import__('datetime').datetime(2020, 1, 1, tzinfo=__import__('datetime').timezone.utc)"),
  ("dtmax", "__import__('datetime').datetime.max"),
  ("dtmin", "__import__('datetime').datetime.min"),
  ("date", "__import__('datetime').date(2020, 2, 29)"),
  ("record", "rec"),
  ("recordset", "T.lookupRecords()"),
  ("object", "object()"),
  ("lambda", "lambda: 1"),
  ("complex", "1j"),
  ("error", "1 / 0"),
  ("cyclic", "l = [1]\nl.append(l)\nreturn l"),
  ("deep", "l = []\nfor i in range(300):\n  l = [l]\nreturn l"),
  ("deeper", "l = []\nfor i in range(3000):\n  l = [l]\nreturn l"),
  ("deepdict", "d = {}\nfor i in range(1500):\n  d = {'k': d}\nreturn d"),
  ("surrogate", "'\\ud800'"),
  ("badrepr", "type('B', (), {'__repr__': lambda s: 1 / 0})()"),
]

def sandbox_session(calls):
  """Run main.run on an in-memory Sandbox; returns the list of (msgCode, body) replies."""
  import logging
  logging.disable(logging.CRITICAL)
  import main
  import sandbox
  inp = io.BytesIO()
  for c in calls:
    marshal.dump(sandbox.Sandbox.CALL, inp, MARSHAL_VERSION)
    marshal.dump(c, inp, MARSHAL_VERSION)
  inp.seek(0)
  outp = io.BytesIO()
  sb = sandbox.Sandbox(inp, outp)
  main.run(sb)
  outp.seek(0)
  replies = []
  while True:
    try:
      buf = marshal.load(outp)
    except EOFError:
      break
    replies.append(marshal.loads(buf))
  return replies


def engine_level(ck):
  formulas = FORMULAS if ck.tier != "quick" else [f for f in FORMULAS if f[0] not in ("deeper", "deepdict")]
  for name, formula in formulas:
    calls = [
      ["load_empty"],
      ["apply_user_actions", [["AddTable", "T", [{"id": "A", "type": "Int"}, {"id": "F", "type": "Any", "isFormula": True, "formula": formula}]]]],
      ["apply_user_actions", [["AddRecord", "T", None, {"A": 1}]]],
      ["fetch_table", "T"],
    ]
    try:
      replies = sandbox_session(calls)
    except BaseException as ex:
      ck.violation("reply: sandbox loop dies for formula %s" % name, "%s: %s" % (formula, type(ex).__name__),
                   {"formula": formula, "name": name})
      continue
    ck.evaluated()
    ck.count("engine_formulas")
    ck.nontrivial_case(["formula", name])
    if len(replies) != len(calls):
      ck.violation("reply: missing reply for formula %s" % name, "%d replies for %d calls" % (len(replies), len(calls)),
                   {"formula": formula, "name": name})
      continue
    for c, (code, body) in zip(calls, replies):
      if code is not True:      # Sandbox.DATA
        sig = SIG_REPLY if name == "subkey" else "reply: %s answered with EXC for formula %s" % (c[0], name)
        ck.violation(sig, "formula %r: %s reply is %r %r" % (formula, c[0], code, body), {"formula": formula, "name": name})


# values a formula reads FROM ANOTHER COLUMN: what a typed formula column stores is not what its formula
# returned (RefList columns keep an objtypes.RecordList, Ref columns an int, ...), and a second formula that
# returns `$G` hands that stored form (wrapped again) to the encoder
CHAINS = [
  ("RefList:T", "T.lookupRecords()"), ("RefList:T", "T.lookupRecords(A=$A)"), ("RefList:T", "[1]"), ("RefList:T", "None"),
  ("Ref:T", "T.lookupOne()"), ("Ref:T", "rec"), ("Ref:T", "1"),
  ("ChoiceList", "['a', 'b']"), ("ChoiceList", "('a',)"), ("ChoiceList", "'a'"),
  ("Date", "__import__('datetime').date(2020, 1, 1)"), ("DateTime:UTC", "__import__('datetime').datetime(2020, 1, 1)"),
  ("Text", "1"), ("Int", "'x'"), ("Numeric", "True"), ("Bool", "1"), ("Any", "T.lookupRecords()"), ("Attachments", "[1]"),
]
CHAIN_READERS = ["$G", "[$G, $G]", "{'k': $G}", "list($G) if isinstance($G, (list, tuple)) else $G", "T.lookupRecords().G", "rec.G"]


def engine_chains(ck):
  chains = CHAINS if ck.tier != "quick" else CHAINS[:12]
  for typ, formula in chains:
    cols = [{"id": "A", "type": "Int"}, {"id": "G", "type": typ, "isFormula": True, "formula": formula}]
    for i, rd in enumerate(CHAIN_READERS):
      cols.append({"id": "F%d" % i, "type": "Any", "isFormula": True, "formula": rd})
    calls = [["load_empty"], ["apply_user_actions", [["AddTable", "T", cols]]],
             ["apply_user_actions", [["BulkAddRecord", "T", [None, None], {"A": [1, 1]}]]],
             ["apply_user_actions", [["UpdateRecord", "T", 1, {"A": 2}]]],
             ["fetch_table", "T"], ["fetch_table", "T", False]]
    rp = {"chain": [typ, formula]}
    try:
      replies = sandbox_session(calls)
    except BaseException as ex:
      ck.violation("reply: sandbox loop dies for a formula reading a %s formula column" % typ.split(":")[0],
                   "%s = %s: %s" % (typ, formula, type(ex).__name__), rp)
      continue
    ck.evaluated()
    ck.count("engine_chains")
    ck.nontrivial_case(["chain", typ, formula])
    if len(replies) != len(calls):
      ck.violation("reply: missing reply for a formula reading a %s formula column" % typ.split(":")[0],
                   "%d replies for %d calls" % (len(replies), len(calls)), rp)
      continue
    for c, (code, body) in zip(calls, replies):
      if code is not True:
        ck.violation("reply: %s answered with EXC for a formula reading a %s formula column" % (c[0], typ.split(":")[0]),
                     "G: %s = %r: reply is %r %r" % (typ, formula, code, str(body)[:300]), rp)
        break


def run(ck):
  ck.rule = ("adversarial value table (~330 atoms, ~90 containers: str/int/float/bytes subclasses, dicts with str, "
             "str-subclass, int, None, tuple keys, sets, ints around 2^31/2^53/2^64/10^400, NaN payloads, dates and "
             "datetimes (naive, moment zones, stdlib tzinfo, extremes of the range), Records/RecordSets of a live engine, "
             "RaisedException with/without details and user input, stubs, opaque objects) + random nested compositions; "
             "malformed marshalled structures for decode_object; hostile values (cyclic, 5000-deep, raising protocol "
             "methods) to the oracle only; engine level: 29 formulas through main.run on an in-memory Sandbox. "
             "non-trivial = encoding is a tagged list (not a primitive passed through); distinct by value spec")
  ck.assumptions = [
    "transport = marshal.dumps(x, 2) as in sandbox.py _send_to_js; Node side = app/common/marshal.ts (no set/complex/code objects)",
    "parameters of the model computed with the real primitives: repr() of unencodable objects, bytes.decode, "
    "moment.dt_to_ts(value) and the tzinfo zone name of each datetime, moment.ts_to_dt(ts, Zone(name)) on decode, "
    "moment.ts_to_date for non-integral stamps; date stamps are days*86400 exactly",
    "round-trip theorem assumes (DtRoundTrip) that ts_to_dt(dt_to_ts(d), Zone(name(d))) succeeds and has the same stamp and zone name; "
    "the oracle checks the round trip unconditionally and found the one exception recorded as a known finding",
    "RecordSet row ids and Record row ids are ints; _name/_message/details of RaisedException are str or None",
    "recursion-depth behaviour (RecursionError inside encode_object) and cyclic containers are exercised on the real code only",
  ]
  ck.lean(["GristProps.C24"])
  allc = [("v", s, h) for s, h in cases(ck)] + [("m", e, False) for e in malformed(ck)]
  mism = None
  B = 4000
  pool = None
  if ck.tier != "quick":
    import multiprocessing
    pool = multiprocessing.get_context("fork").Pool(min(6, os.cpu_count() or 1))
  try:
    for b0 in range(0, len(allc), B):
      batch = allc[b0:b0 + B]
      results = pool.map(eval_any, batch, chunksize=50) if pool else [eval_any(c) for c in batch]
      ops, idx = [], []
      for i, r in enumerate(results):
        ck.evaluated()
        kind = batch[i][0]
        if kind == "v":
          if batch[i][2]: ck.count("hostile_values")
          if r.get("skip"): ck.count("outside_model_universe")
          if r.get("wrapped"):
            ck.nontrivial_case(r["spec"])
            ck.sample({"value": r["spec"]})
          for sig, detail in r["bad"]:
            ck.violation(sig, detail, {"spec": r["spec"]})
        else:
          ck.count("malformed_structures")
          if r.get("skip"): ck.count("malformed_outside_model")
          for sig, detail in r["bad"]:
            ck.violation(sig, detail, {"enc": r["enc"]})
        if r["op"] is not None:
          ops.append(r["op"]); idx.append(i)
      model = ck.driver(ops)
      for i, mo in zip(idx, model):
        ck.count("tied_to_model")
        kind = batch[i][0]
        d = compare(mo, results[i]["real"], ("e", "safe", "d", "e2") if kind == "v" else ("d", "e2"))
        if d:
          ck.count("model_impl_disagreements")
          if mism is None:
            mism = {"spec": results[i]["spec"]} if kind == "v" else {"enc_repr": results[i]["enc"]}
            mism["diff"] = d
  finally:
    if pool:
      pool.close(); pool.join()
  if mism and not ck.has_impl_violation():
    ck.broken("correspondence objtypes.encode_object/decode_object vs Grist.PyVal.encode/decode",
              "model and implementation differ and the property's clauses hold (up to known findings) on all explored inputs: %s"
              % mism["diff"], mism)
  replay_witnesses(ck)
  engine_level(ck)
  engine_chains(ck)


WITNESSES = [
  (["dict", [[["S", "k"], ["int", 1]]]], SIG_SUBKEY),
  (["datetime", [9999, 12, 31, 23, 59, 59, 999999], None], SIG_DTMAX),
]

def replay_witnesses(ck):
  ctx = get_ctx()
  for spec, sig in WITNESSES:
    _, _, _, bad, _ = oracle(build(spec, ctx))
    ok = any(b[0] == sig for b in bad)
    ck.obligations.append(("witness replays on real code: %s" % json.dumps(spec), ok,
                           "" if ok else "the negation witness no longer fails on the real code; remove the known "
                           "finding and prove the full statement"))
    for s, detail in bad:
      ck.violation(s, detail, {"spec": spec})


def replay(ck, rp):
  r = rp["replay"] or {}
  ctx = get_ctx()
  if "spec" in r:
    v = build(r["spec"], ctx)
    e, d, e2, bad, _ = oracle(v)
    ck.evaluated()
    print("replay: encode_object(%s) = %s ; re-encoded after decode = %s -> %s" % (
      _short(v), _short(e), _short(e2), [b[0] for b in bad] or "property holds"))
    for sig, detail in bad:
      ck.violation(sig, detail, r)
    if "diff" in r:
      res = eval_case(r["spec"], False)
      if res["op"] is not None:
        mo = ck.driver([res["op"]])[0]
        dd = compare(mo, res["real"], ("e", "safe", "d", "e2"))
        print("replay: model vs implementation: %s" % (dd or "agree"))
        if dd and not bad:
          ck.broken("correspondence objtypes.encode_object/decode_object vs Grist.PyVal.encode/decode", dd, r)
    ck.nontrivial_case(r["spec"])
  elif "chain" in r:
    global CHAINS
    saved, CHAINS = CHAINS, [tuple(r["chain"])]
    tier, ck.tier = ck.tier, "thorough"
    engine_chains(ck)
    CHAINS, ck.tier = saved, tier
  elif "formula" in r:
    calls = [["load_empty"],
             ["apply_user_actions", [["AddTable", "T", [{"id": "A", "type": "Int"}, {"id": "F", "type": "Any", "isFormula": True, "formula": r["formula"]}]]]],
             ["apply_user_actions", [["AddRecord", "T", None, {"A": 1}]]],
             ["fetch_table", "T"]]
    replies = sandbox_session(calls)
    ck.evaluated()
    for c, (code, body) in zip(calls, replies):
      print("replay: %s -> %s %s" % (c[0], {True: "DATA", False: "EXC", None: "CALL"}.get(code), _short(body)))
      if code is not True:
        sig = SIG_REPLY if r.get("name") == "subkey" else "reply: %s answered with EXC for formula %s" % (c[0], r.get("name"))
        ck.violation(sig, "formula %r: %s reply is %r %r" % (r["formula"], c[0], code, body), r)
    ck.nontrivial_case(r["formula"])
  else:
    print("replay: nothing to replay (%s)" % (rp.get("broken") or rp.get("signature")))
  ck.nontrivial_case("replay")
  ck.lean(["GristProps.C24"])
