"""
C41  fetch_table queries return exactly the matching rows.

Theorems: lean/GristProps/C41.lean about GristModel/FetchQuery.lean (engine.Engine.fetch_table,
Table.RowIDs.__iter__, BaseColumn.raw_get, column.is_virtual_column, Python ==/hash/in on the
modelled value universe).

Interpretation (fixed here):
 * `query` = a dict {column id: list of requested values} handed to Engine.fetch_table (Python
   values: the sandbox entry point passes the JSON values through undecoded).  None or {} = no query.
 * "stored value is among the requested values" = `any(stored == v for v in values)` with Python's
   `==` on the raw stored value (`raw_get`): True == 1 == 1.0, None only equals None, a list only
   equals a list, a tuple (ChoiceList cell) only a tuple.  "Unhashable values handled" = the answer
   is this same membership test whether or not the values / the cell can be hashed.
 * the 'id' column may be queried (its stored value is the row id); a formula or private column may
   be queried even when it is not returned.  An unknown column id is a KeyError (outside the
   property; model = code only).
 * "in row id order" = strictly increasing row ids, each row at most once.
 * "only the requested kinds of columns" = table order; formula columns iff `formulas`; private
   columns (the engine's own helper formulas of metadata tables, summary back-references) iff
   `private`; never 'id'; never virtual '#…' columns (lookup maps); one value per returned row =
   that row's stored value.
 * Values: None, bool, int, finite float, str, list, tuple (nested); NaN and dicts are not generated
   (x == x fails for NaN; dicts are outside the modelled universe).

Tie: every (table state, flags, query) goes through the live engine and through the Lean model
(input extracted from the engine: id column, every column's `_data`, flags).
Search (direct oracle): a naive scan over `fetch_table(formulas=True, private=True)` without query
using Python's own `==`, and an independent reading of which columns are formula / private
(engine.schema, docmodel.MetaTableExtras).
"""
import itertools
import math


def enc(v):
  if v is None or isinstance(v, bool) or isinstance(v, str):
    return v
  if isinstance(v, int):
    return ["i", v]
  if isinstance(v, float):
    if math.isfinite(v) and v == int(v):
      return ["f", int(v)]
    return ["g", repr(v)]
  if type(v) is list:
    return ["l", [enc(x) for x in v]]
  if type(v) is tuple:
    return ["t", [enc(x) for x in v]]
  return ["g", "obj:" + repr(v)]          # opaque (never queried)


def modelled(v):
  if v is None or type(v) in (bool, int, str):
    return True
  if type(v) is float:
    return not math.isnan(v)
  if type(v) in (list, tuple):       # exact types: RecordList / SortKey are subclasses
    return all(modelled(x) for x in v)
  return False


def hashable(v):
  try:
    hash(v)
    return True
  except TypeError:
    return False


def model_op(eng, tid, formulas, private, query):
  t = eng.tables[tid]
  return {"m": "fetchquery", "ids": list(t._id_column._data),
          "cols": [{"id": cid, "f": bool(c.is_formula()), "p": bool(c.is_private()),
                    "d": [enc(v) for v in c._data], "def": enc(c.getdefault())}
                   for cid, c in t.all_columns.items()],
          "formulas": formulas, "private": private,
          "query": None if query is None else [[k, [enc(v) for v in vs]] for k, vs in query.items()]}


def real_fetch(eng, tid, formulas, private, query):
  try:
    td = eng.fetch_table(tid, formulas=formulas, private=private, query=query)
  except Exception as e:           # pylint: disable=broad-except
    return {"error": type(e).__name__}, None
  return {"rows": list(td.row_ids), "cols": [[c, [enc(v) for v in vals]] for c, vals in td.columns.items()]}, td


def private_names(tid):
  import docmodel
  ex = getattr(docmodel.MetaTableExtras, tid, None)
  return set(n for n in ex.__dict__ if not n.startswith("__")) if ex else set()


def oracle(eng, tid, formulas, private, query, td):
  """the property's clauses on the real result `td`; returns None or (signature, detail)"""
  full = eng.fetch_table(tid, formulas=True, private=True)
  table = eng.tables[tid]
  cols = {c: [col.raw_get(r) for r in full.row_ids] for c, col in table.all_columns.items()}
  want = []
  for idx, r in enumerate(full.row_ids):
    ok = True
    for c, values in (query or {}).items():
      cell = r if c == "id" else cols[c][idx]
      if not any(cell == v for v in values):
        ok = False
        break
    if ok:
      want.append(r)
  got = list(td.row_ids)
  shape = "all requested values hashable"
  if any(not hashable(v) for vs in (query or {}).values() for v in vs):
    shape = "requested values contain an unhashable value"
  elif any(not hashable(cols[c][i]) for c in (query or {}) if c != "id" for i in range(len(full.row_ids))):
    shape = "a queried column holds an unhashable cell"
  if any(a >= b for a, b in zip(got, got[1:])):
    return ("rows not in increasing row id order", "%r" % (got,))
  if got != want:
    kind = "missing rows" if set(want) - set(got) else "extra rows"
    return ("query result differs from the naive scan (%s; %s)" % (kind, shape),
            "table %s query %r: got %r, naive scan %r" % (tid, query, got, want))
  # columns
  schema = eng.schema.get(tid)
  priv = private_names(tid)
  exp_cols = []
  for c in eng.tables[tid].all_columns:
    if c == "id" or c.startswith("#"):
      continue
    is_formula = bool(schema.columns[c].isFormula) if (schema and c in schema.columns) else (c in priv)
    if is_formula and not formulas:
      continue
    if c in priv and not private:
      continue
    exp_cols.append(c)
  if list(td.columns) != exp_cols:
    return ("returned columns differ from the formulas/private flags",
            "table %s formulas=%r private=%r: got %r expected %r" % (tid, formulas, private, list(td.columns), exp_cols))
  pos = {r: i for i, r in enumerate(full.row_ids)}
  for c, vals in td.columns.items():
    exp = [cols[c][pos[r]] for r in got]
    if len(vals) != len(got) or any(not (a is b or (a == b and type(a) is type(b))) for a, b in zip(vals, exp)):
      return ("returned column values are not the stored values of the returned rows",
              "table %s column %s: %r vs %r" % (tid, c, vals, exp))
  return None


# ---------------------------------------------------------------------------------------------
# generation

SCALARS = [None, True, False, 0, 1, 2, -1, 0.0, 1.0, 2.5, -0.0, "", "a", "b", "1", "True", 2 ** 53, float(2 ** 53), 2 ** 53 + 1, float("inf")]
SMALL = [None, True, 1, 1.0, 0, False, 0.0, "1", "", [1], [True], (1,), ("1",), [], (), [[1]], ([1],), 2.5]


def gen_any(rng, depth=0):
  x = rng.random()
  if x < 0.7 or depth >= 2:
    return rng.choice(SCALARS[:17])
  n = rng.choice([0, 1, 1, 2, 3])
  return ["L"] + [gen_any_enc(rng, depth + 1) for _ in range(n)]


def gen_any_enc(rng, depth):
  v = gen_any(rng, depth)
  return v


def variant(rng, v):
  """a value that is ==, or nearly ==, to v"""
  x = rng.random()
  if isinstance(v, bool):
    return rng.choice([v, int(v), float(v), str(v), None])
  if isinstance(v, int):
    return rng.choice([v, float(v) if abs(v) < 2 ** 60 else v, v == 1 if v in (0, 1) else v, str(v), v + 1])
  if isinstance(v, float):
    return rng.choice([v, int(v) if v == v and abs(v) < 2 ** 60 and v == int(v) else v, v + 0.5, repr(v)])
  if isinstance(v, str):
    return rng.choice([v, v + "x", v.upper(), [v], (v,)])
  if isinstance(v, list):
    w = [variant(rng, e) if rng.random() < 0.4 else e for e in v]
    return rng.choice([list(v), tuple(v), w, tuple(w), v + [None]])
  if isinstance(v, tuple):
    w = tuple(variant(rng, e) if rng.random() < 0.4 else e for e in v)
    return rng.choice([tuple(v), list(v), w, list(w), v + ("",)])
  return rng.choice([None, 0, "", False, []])


class SetupRejected(Exception):
  pass


def must(doc, bundle):
  r = doc.apply(bundle)
  if not r.ok:
    raise SetupRejected("%r -> %r" % (bundle, r.error))
  return r


def build_doc(rng):
  from gx import engine_driver as ed
  doc = ed.Doc()
  try:
    _build_doc(rng, doc)
  except SetupRejected as e:
    doc.setup_error = str(e)
  return doc


def _build_doc(rng, doc):
  cols = [{"id": "I", "type": "Int"}, {"id": "S", "type": "Text"}, {"id": "Bo", "type": "Bool"},
          {"id": "An", "type": "Any"}, {"id": "CL", "type": "ChoiceList"}, {"id": "N", "type": "Numeric"}]
  with_formula = rng.random() < 0.8
  if with_formula:
    cols.append({"id": "F", "type": "Any", "isFormula": True, "formula": "[$S, $An]"})
    cols.append({"id": "G", "type": "Any", "isFormula": True, "formula": "$An"})
  if rng.random() < 0.6:
    cols.append({"id": "Lk", "type": "Any", "isFormula": True, "formula": "len(T.lookupRecords(S=$S))"})
  must(doc, [["AddTable", "T", cols]])
  n = rng.choice([0, 1, 3, 4, 5, 6, 8, 10])
  if n:
    data = {
      "I": [rng.choice([0, 1, 2, -1, 2 ** 53 + 1, None, "x", True, 1.0, 2.5]) for _ in range(n)],
      "S": [rng.choice(["", "a", "b", "1", "True", None, 1]) for _ in range(n)],
      "Bo": [rng.choice([True, False, 1, 0, None, 1.0]) for _ in range(n)],
      "An": [gen_any(rng) for _ in range(n)],
      "CL": [rng.choice([None, ["L"], ["L", "a"], ["L", "a", "b"], ["L", "1"], "a", ""]) for _ in range(n)],
      "N": [rng.choice([0, 1, 2.5, -0.0, None, "t", True, float(2 ** 53), 1e300]) for _ in range(n)],
    }
    must(doc, [["BulkAddRecord", "T", [None] * n, data]])
    rows = list(doc.engine.tables["T"].row_ids)
    if len(rows) > 2 and rng.random() < 0.6:
      must(doc, [["BulkRemoveRecord", "T", rng.sample(rows, rng.choice([1, 2]))]])
      if rng.random() < 0.5:
        doc.apply([["AddRecord", "T", None, {"An": gen_any(rng), "S": "a"}]])
  if rng.random() < 0.4:
    must(doc, [["CreateViewSection", 1, 0, "record", [2], None]])    # summary table by I: private+virtual helper


def stored_values(eng, tid, cid):
  t = eng.tables[tid]
  c = t.get_column(cid)
  return [c.raw_get(r) for r in t.row_ids]


def gen_query(rng, eng, tid, qcols):
  x = rng.random()
  if x < 0.04:
    return None
  if x < 0.07:
    return {}
  if x < 0.11:
    q = {rng.choice(["nope", "Id", "#nope"]): [1]}
    if rng.random() < 0.5:
      q[rng.choice(qcols)] = [1]
    return q
  k = rng.choice([1, 1, 1, 2, 2, 3])
  q = {}
  for c in rng.sample(qcols, min(k, len(qcols))):
    present = [v for v in stored_values(eng, tid, c) if modelled(v)]
    vals = []
    for _ in range(rng.choice([0, 1, 1, 2, 3, 5])):
      y = rng.random()
      if present and y < 0.45:
        vals.append(rng.choice(present))
      elif present and y < 0.8:
        vals.append(variant(rng, rng.choice(present)))
      else:
        v = gen_any(rng)
        vals.append(_decode(v))
    q[c] = vals
  return q


def _decode(v):
  if isinstance(v, list) and v and v[0] == "L":
    return [_decode(x) for x in v[1:]]
  return v


def classify(query, td, nrows):
  if not query:
    return "noquery"
  unh = any(not hashable(v) for vs in query.values() for v in vs)
  return "list-path" if unh else "set-path"


def cases_for_doc(ck, rng, doc, nq):
  eng = doc.engine
  out = []
  for _ in range(nq):
    x = rng.random()
    if x < 0.8 and "T" in eng.tables:
      tid = "T"
      t = eng.tables[tid]
      qcols = [c for c in t.all_columns if not c.startswith("#")
               and all(modelled(v) for v in t.get_column(c)._data)]
    else:
      tid = rng.choice(["_grist_Tables_column", "_grist_Tables", "_grist_Views_section", "_grist_Views_section_field"])
      t = eng.tables[tid]
      qcols = [c for c in t.all_columns if not c.startswith("#")
               and all(modelled(v) for v in t.get_column(c)._data)]
    q = gen_query(rng, eng, tid, qcols)
    out.append((tid, rng.random() < 0.6, rng.random() < 0.3, q))
  return out


def small_scope(ck, rng):
  """one Any column holding every SMALL cell value that a user action can store, ChoiceList tuples;
  every query of <= 2 requested values over SMALL (thorough) / a third of them (quick)."""
  from gx import engine_driver as ed
  doc = ed.Doc()
  cells = [None, True, 1, 1.0, 0, False, 0.0, "1", "", ["L", 1], ["L", True], ["L"], ["L", ["L", 1]], 2.5]
  cl = [["L", "1"], ["L"], None, "1"] + [None] * (len(cells) - 4)
  try:
    must(doc, [["AddTable", "T", [{"id": "An", "type": "Any"}, {"id": "CL", "type": "ChoiceList"}]]])
    must(doc, [["BulkAddRecord", "T", [None] * len(cells), {"An": cells, "CL": cl}]])
  except SetupRejected as e:
    doc.setup_error = str(e)
    return doc, []
  out = []
  combos = [()] + [(a,) for a in SMALL] + list(itertools.combinations(SMALL, 2))
  for vs in combos:
    if ck.tier == "quick" and len(vs) == 2 and rng.random() > 0.35:
      continue
    out.append(("T", True, False, {"An": list(vs)}))
    if len(vs) <= 1 or rng.random() < 0.3:
      out.append(("T", True, False, {"CL": list(vs)}))
      out.append(("T", False, False, {"An": list(vs), "CL": [None, ("1",)]}))
  return doc, out


def run_cases(ck, doc, cases, acc):
  eng = doc.engine
  for (tid, formulas, private, q) in cases:
    mop = model_op(eng, tid, formulas, private, q)
    real, td = real_fetch(eng, tid, formulas, private, q)
    bad = oracle(eng, tid, formulas, private, q, td) if td is not None else None
    if td is None and not (q and any(c not in eng.tables[tid].all_columns for c in q) and real["error"] == "KeyError"):
      bad = ("fetch_table raised on a query over existing columns", "%r -> %r" % (q, real))
    acc.append((list(doc.history), (tid, formulas, private, q), mop, real, bad, td))


def chunk_worker(arg):
  import random
  seedstr, n = arg
  rng = random.Random(seedstr)
  acc, errs = [], []
  for _ in range(n):
    doc = build_doc(rng)
    if getattr(doc, "setup_error", None):
      errs.append(doc.setup_error)
    run_cases(None, doc, cases_for_doc(None, rng, doc, 40), acc)
  return [a[:5] + (None if a[5] is None else True,) for a in acc], errs


def run(ck):
  ck.rule = ("seeded documents (Int/Text/Bool/Any/ChoiceList/Numeric data columns, formula columns holding lists, a lookup "
             "column (virtual #lookup), optionally a summary table (private+virtual helper), removed rows) x ~40 queries each "
             "over 1-3 columns incl. 'id', manualSort, formula and private columns, metadata tables, with requested values "
             "taken from the stored cells, near-equal variants (True/1/1.0/'1', list/tuple, nested) and random values; plus a "
             "small scope: every query of <=2 requested values over 18 values against a column holding 14 cell values; "
             "non-trivial = a query over existing columns that keeps some rows and drops some, or involves an unhashable "
             "requested value or cell; distinct by (history, flags, query)")
  ck.assumptions = [
    "values: None/bool/int/finite float/str/list/tuple (no NaN, no dict, no dates) in queried columns and requested values",
    "query values are lists (the documented shape); an unknown column id is a KeyError (correspondence only)",
    "private columns are identified independently via docmodel.MetaTableExtras; formula columns via engine.schema",
  ]
  ck.lean(["GristProps.C41"])
  rng = ck.rng
  quick = ck.tier == "quick"
  acc = []
  setup_errors = []
  doc, cases = small_scope(ck, rng)
  run_cases(ck, doc, cases, acc)
  setup_errors = [doc.setup_error] if getattr(doc, "setup_error", None) else []
  ndocs = 25 if quick else 800
  chunks = [("C41/%s/%d" % (ck.seed, i), min(20, ndocs - i)) for i in range(0, ndocs, 20)]
  if quick:
    parts = [chunk_worker(c) for c in chunks]
  else:
    import multiprocessing
    with multiprocessing.Pool(min(8, multiprocessing.cpu_count())) as pool:
      parts = pool.map(chunk_worker, chunks, chunksize=1)
  for a, errs in parts:
    acc.extend(a)
    setup_errors.extend(errs)
  ck.count("setup_steps_rejected", len(setup_errors))
  answers = ck.driver([a[2] for a in acc])
  mism = None
  for (hist, case, mop, real, bad, td), ma in zip(acc, answers):
    tid, formulas, private, q = case
    ck.evaluated()
    ck.count("path:" + classify(q, td, 0))
    ck.count("outcome:" + ("error:" + real["error"] if "error" in real else "ok"))
    ck.count("table:" + ("user" if tid == "T" else "meta"))
    if ma != real:
      ck.count("model_impl_disagreements")
      if mism is None:
        mism = {"history": hist, "case": _jsonable(case), "model": ma, "impl": real}
    if td is not None and q:
      n_all = len(list(doc_rows(mop)))
      unh = any(not hashable(v) for vs in q.values() for v in vs) or any(
        isinstance(e, list) and e and e[0] == "l" for c in mop["cols"] if c["id"] in q for e in c["d"])
      if 0 < len(real["rows"]) < n_all:
        ck.count("rows:some")
      if 0 < len(real["rows"]) < n_all or unh:
        ck.nontrivial_case([hist, _jsonable(case)])
      if 0 < len(real["rows"]) < n_all and unh:
        ck.sample({"table": tid, "formulas": formulas, "private": private, "query": _jsonable(q), "rows": real["rows"]})
    if bad:
      ck.violation(bad[0], bad[1], {"history": hist, "case": _jsonable(case)})
  if mism and not ck.has_impl_violation():
    ck.broken("correspondence Engine.fetch_table vs Grist.FetchQuery.fetchTable",
              "model and implementation differ and the property's clauses hold on all explored inputs", mism)
  if setup_errors and not ck.violations:
    ck.broken("the engine rejected an ordinary set-up action of the test documents", setup_errors[0])


def doc_rows(mop):
  return [i for i, v in enumerate(mop["ids"]) if v > 0]


def _jsonable(x):
  """queries travel in replays with tuples / floats marked (JSON has neither tuples nor inf)"""
  if isinstance(x, tuple):
    return {"__t": [_jsonable(e) for e in x]}
  if isinstance(x, list):
    return [_jsonable(e) for e in x]
  if isinstance(x, dict):
    return {"__d": [[k, _jsonable(v)] for k, v in x.items()]}
  if isinstance(x, float):
    return {"__f": repr(x)}
  return x


def _unjson(x):
  if isinstance(x, dict):
    if "__t" in x:
      return tuple(_unjson(e) for e in x["__t"])
    if "__d" in x:
      return {k: _unjson(v) for k, v in x["__d"]}
    if "__f" in x:
      return float(x["__f"])
  if isinstance(x, list):
    return [_unjson(e) for e in x]
  return x


def replay(ck, rp):
  from gx import engine_driver as ed
  r = rp["replay"]
  doc = ed.Doc()
  for b in r["history"][1:]:
    assert doc.apply(b).ok, b
  tid, formulas, private, q = _unjson(r["case"])
  acc = []
  run_cases(ck, doc, [(tid, formulas, private, q)], acc)
  (_, case, mop, real, bad, td) = acc[0]
  ck.evaluated()
  ck.nontrivial_case([r["history"], r["case"]]); ck.nontrivial_case("replay")
  ma = ck.driver([mop])[0]
  print("replay: fetch_table(%r, formulas=%r, private=%r, query=%r) -> %r" % (tid, formulas, private, q, real.get("rows", real)))
  print("replay: model rows %r" % (ma.get("rows", ma),))
  if bad:
    print("replay: property violated: %s: %s" % bad)
    ck.violation(bad[0], bad[1], {"history": r["history"], "case": r["case"]})
  else:
    print("replay: property holds")
    if ma != real:
      ck.broken("correspondence Engine.fetch_table vs Grist.FetchQuery.fetchTable",
                "model and implementation differ on the replayed input", {"model": ma, "impl": real})
  ck.lean(["GristProps.C41"])
