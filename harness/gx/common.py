"""
Shared machinery for every property check.

A check module (harness/gx/props/cXX.py) defines `run(ck)` where `ck` is a `Check`:
  ck.lean(...)            build + hygiene + axiom audit of the property's Lean module(s)
  ck.driver(lines)        run the compiled Lean driver on a list of JSON ops, get JSON answers
  ck.violation(...)       record a violation of the PROPERTY on the real code (with replay)
  ck.broken(...)          record a broken proof obligation / correspondence (model != code)
  ck.cover(...)           accumulate coverage numbers for the evidence file
and the framework writes evidence/<ID>.json, prints VIOLATION / KNOWN-FINDING lines and
returns the exit code (0 ok, 1 violation, 2 infrastructure failure).
"""
import fcntl
import hashlib
import json
import os
import random
import re
import subprocess
import sys
import time
import traceback

VERIF = os.path.abspath(os.path.join(os.path.dirname(__file__), "..", ".."))
REPO = os.environ.get("GRIST_REPO", "/repo")
LEAN_DIR = os.path.join(VERIF, "lean")
DRIVER = os.path.join(LEAN_DIR, ".lake", "build", "bin", "gristdrv")
SANDBOX = os.path.join(REPO, "sandbox", "grist")
ALLOWED_AXIOMS = {"propext", "Classical.choice", "Quot.sound"}
FORBIDDEN = re.compile(
    r"\bsorry\b|\badmit\b|^\s*axiom\s|native_decide|bv_decide|implemented_by|\bunsafe\s|maxHeartbeats\s+0\b",
    re.M)

TRUSTED_BASE = [
  "Lean 4.33 kernel (leanchecker re-check in thorough tier)",
  "axioms allowed: propext, Classical.choice, Quot.sound (audited by #print axioms each run)",
  "Lean compiler for the driver executable only",
  "correspondence harness (generators, canonicaliser, diff) in /verif/harness/gx",
]


class Infra(Exception):
  """Infrastructure failure (exit 2), never a verdict."""


def strip_lean_comments(src):
  # remove /- ... -/ (nested) and -- ... comments
  out = []
  i, depth, n = 0, 0, len(src)
  while i < n:
    if src.startswith("/-", i):
      depth += 1; i += 2; continue
    if depth and src.startswith("-/", i):
      depth -= 1; i += 2; continue
    if depth:
      i += 1; continue
    if src.startswith("--", i):
      j = src.find("\n", i)
      i = n if j < 0 else j
      continue
    out.append(src[i]); i += 1
  return "".join(out)


def lake_lock():
  f = open(os.path.join(LEAN_DIR, ".lake.lock"), "w")
  fcntl.flock(f, fcntl.LOCK_EX)
  return f


def run_cmd(cmd, cwd=None, timeout=1800, env=None, input=None):
  p = subprocess.run(cmd, cwd=cwd, timeout=timeout, env=env, input=input,
                     stdout=subprocess.PIPE, stderr=subprocess.STDOUT, text=True)
  return p.returncode, p.stdout


class Check(object):
  def __init__(self, pid, tier, seed, level="proof"):
    self.pid = pid
    self.tier = tier
    self.seed = seed
    self.level = level
    self.rng = random.Random("%s/%s" % (pid, seed))
    self.t0 = time.time()
    self.violations = []      # dicts: kind, signature, detail, replay
    self.known = []
    self.obligations = []     # (name, ok, note)
    self.cov = {"evaluations": 0, "samples": [], "counters": {}}
    self.nontrivial = set()
    self.assumptions = []
    self.trusted = list(TRUSTED_BASE)
    self.rule = ""
    self.explanation = ""
    self.extra = {}
    self.replay_n = 0
    self.checker_cmds = []
    self._known_db = load_known_findings()

  # ------------------------------------------------------------------ Lean side
  def lean(self, modules, extra_sources=(), generated=()):
    """Build the given GristProps modules, grep hygiene, audit axioms.  Returns True if all
    obligations are discharged.  A failure is recorded as a broken obligation (not yet a
    violation: the caller then searches the real code for a failing input)."""
    ok_all = True
    lock = lake_lock()
    try:
      targets = list(modules) + ["gristdrv"]
      cmd = ["lake", "build"] + targets
      self.checker_cmds.append("cd lean && " + " ".join(cmd))
      rc, out = run_cmd(cmd, cwd=LEAN_DIR, timeout=3000)
      if rc != 0:
        # which modules failed?
        failed = re.findall(r"^- (\S+)", out, re.M) or ["build"]
        errs = [l for l in out.splitlines() if "error" in l][:8]
        for m in failed:
          self.obligations.append(("build:" + m, False, "; ".join(errs)[:600]))
        ok_all = False
      else:
        self.obligations.append(("build:" + ",".join(modules), True, ""))
    finally:
      lock.close()
    # hygiene grep over all sources the theorems can depend on
    srcs = []
    for d in ("GristModel", "GristProofs", "GristProps", "Generated"):
      dd = os.path.join(LEAN_DIR, d)
      if os.path.isdir(dd):
        for f in sorted(os.listdir(dd)):
          if f.endswith(".lean"):
            srcs.append(os.path.join(dd, f))
    bad = []
    for f in srcs:
      m = FORBIDDEN.search(strip_lean_comments(open(f).read()))
      if m:
        bad.append("%s: %r" % (os.path.relpath(f, LEAN_DIR), m.group(0)))
    self.obligations.append(("hygiene:no sorry/axiom/native_decide", not bad, "; ".join(bad)))
    ok_all = ok_all and not bad
    if not ok_all:
      return False
    # axiom audit
    for mod in modules:
      ok_all = self._audit(mod) and ok_all
    if self.tier == "thorough":
      lock = lake_lock()
      try:
        cmd = ["lake", "env", "leanchecker"] + list(modules)
        self.checker_cmds.append("cd lean && " + " ".join(cmd))
        rc, out = run_cmd(cmd, cwd=LEAN_DIR, timeout=3000)
        self.obligations.append(("leanchecker:" + ",".join(modules), rc == 0, out[-400:] if rc else ""))
        ok_all = ok_all and rc == 0
      finally:
        lock.close()
    return ok_all

  def _audit(self, mod):
    path = os.path.join(LEAN_DIR, *mod.split(".")) + ".lean"
    src = strip_lean_comments(open(path).read())
    names = []
    ns = []
    for line in src.splitlines():
      m = re.match(r"\s*namespace\s+(\S+)", line)
      if m:
        ns.append(m.group(1)); continue
      m = re.match(r"\s*end\s+(\S+)", line)
      if m and ns and ns[-1] == m.group(1):
        ns.pop(); continue
      m = re.match(r"\s*(?:private\s+|protected\s+)?theorem\s+([^\s:({\[]+)", line)
      if m:
        names.append(".".join(ns + [m.group(1)]))
    if not names:
      self.obligations.append(("audit:%s has no theorems" % mod, False, ""))
      return False
    adir = os.path.join(VERIF, ".audit")
    os.makedirs(adir, exist_ok=True)
    afile = os.path.join(adir, mod.replace(".", "_") + "_%d.lean" % os.getpid())
    with open(afile, "w") as f:
      f.write("import %s\n" % mod)
      for n in names:
        f.write("#print axioms %s\n" % n)
    cmd = ["lake", "env", "lean", afile]
    self.checker_cmds.append("cd lean && lake env lean <audit of %s: #print axioms x%d>" % (mod, len(names)))
    rc, out = run_cmd(cmd, cwd=LEAN_DIR, timeout=1200)
    os.unlink(afile)
    ok_all = True
    # parse: "'Name' depends on axioms: [a, b]" or "'Name' does not depend on any axioms"
    found = {}
    for m in re.finditer(r"'(\S+)' depends on axioms: \[([^\]]*)\]", out, re.S):
      found[m.group(1)] = set(x.strip() for x in m.group(2).replace("\n", " ").split(",") if x.strip())
    for m in re.finditer(r"'(\S+)' does not depend on any axioms", out):
      found[m.group(1)] = set()
    for n in names:
      if n not in found:
        self.obligations.append(("thm:" + n, False, "no audit output: " + out[-300:]))
        ok_all = False
      else:
        extra = found[n] - ALLOWED_AXIOMS
        self.obligations.append(("thm:" + n, not extra, "axioms=" + ",".join(sorted(found[n]))))
        ok_all = ok_all and not extra
    return ok_all

  def driver(self, lines, timeout=1200):
    """Run the compiled model driver on a list of JSON-able ops; returns list of decoded answers."""
    if not os.path.exists(DRIVER):
      raise Infra("driver not built: " + DRIVER)
    if not lines:
      return []
    data = "\n".join(json.dumps(l, separators=(",", ":")) for l in lines) + "\n"
    p = subprocess.run([DRIVER], input=data, stdout=subprocess.PIPE, stderr=subprocess.PIPE,
                       text=True, timeout=timeout)
    if p.returncode != 0:
      raise Infra("driver exit %s: %s" % (p.returncode, p.stderr[-500:]))
    outs = p.stdout.split("\n")
    if outs and outs[-1] == "":
      outs.pop()
    if len(outs) != len(lines):
      raise Infra("driver answered %d lines for %d ops; stderr=%s" % (len(outs), len(lines), p.stderr[-300:]))
    return [json.loads(o) for o in outs]

  # ------------------------------------------------------------------ results
  def count(self, key, n=1):
    c = self.cov["counters"]
    c[key] = c.get(key, 0) + n

  def evaluated(self, n=1):
    self.cov["evaluations"] += n

  def nontrivial_case(self, obj):
    """Record a case that is non-trivial by the check's rule; distinctness by content hash."""
    h = hashlib.sha1(json.dumps(obj, sort_keys=True, default=str).encode()).hexdigest()
    self.nontrivial.add(h)

  def sample(self, obj, limit=4):
    if len(self.cov["samples"]) < limit:
      self.cov["samples"].append(obj)

  def write_replay(self, obj):
    self.replay_n += 1
    d = os.path.join(VERIF, "replays")
    os.makedirs(d, exist_ok=True)
    path = os.path.join(d, "%s-%s-seed%s-%d.json" % (self.pid, self.tier, self.seed, self.replay_n))
    obj = dict(obj)
    obj.setdefault("property", self.pid)
    obj.setdefault("seed", self.seed)
    with open(path, "w") as f:
      json.dump(obj, f, indent=1, default=str, sort_keys=True)
    return path

  def violation(self, signature, detail, replay, kind="impl-violates"):
    """The REAL code violates the property on a concrete input (replay holds it)."""
    for kf in self._known_db:
      if kf.get("property") == self.pid and kf.get("status", "known") == "known" \
         and kf.get("signature") == signature:
        if signature not in [k[0] for k in self.known]:
          self.known.append((signature, kf.get("what", detail)))
        self.count("known_finding_hits")
        return False
    # keep at most a few distinct signatures
    for v in self.violations:
      if v["signature"] == signature:
        v["count"] += 1
        return True
    path = self.write_replay({"kind": kind, "signature": signature, "detail": detail, "replay": replay})
    self.violations.append({"kind": kind, "signature": signature, "detail": detail,
                            "replay": path, "count": 1})
    return True

  def broken(self, what, detail, replay=None):
    """A proof obligation or the model/code correspondence no longer checks, and no failing input
    for the property itself was found (caller searched)."""
    sig = "broken:" + what
    for v in self.violations:
      if v["signature"] == sig:
        v["count"] += 1
        return
    path = self.write_replay({"kind": "no-failing-input-found", "broken": what, "detail": detail,
                              "replay": replay})
    self.violations.append({"kind": "no-failing-input-found", "signature": sig, "detail": detail,
                            "replay": path, "count": 1})

  def has_impl_violation(self):
    return any(v["kind"] == "impl-violates" for v in self.violations)

  def finish(self):
    n_obl = len(self.obligations)
    n_dis = sum(1 for o in self.obligations if o[1])
    cov = {
      "obligations": n_obl,
      "discharged": n_dis,
      "checker_cmd": " ; ".join(dict.fromkeys(self.checker_cmds)) or "none",
      "trusted_base": self.trusted,
      "evaluations": self.cov["evaluations"],
      "distinct_nontrivial": len(self.nontrivial),
      "rule": self.rule,
      "samples": self.cov["samples"] or [{"note": "no sample recorded"}],
      "counters": self.cov["counters"],
      "obligation_list": [{"name": o[0], "ok": o[1], "note": o[2]} for o in self.obligations],
      "undischarged": [o[0] for o in self.obligations if not o[1]],
    }
    if self.explanation:
      cov["explanation"] = self.explanation
    if self.level == "translation_validation":
      cov["programs"] = self.cov["evaluations"]
      cov["disagreements_checked"] = self.cov["counters"].get("disagreements_checked", 0)
    cov.update(self.extra)
    ev = {
      "property_id": self.pid,
      "tier": self.tier,
      "seed": int(self.seed),
      "level": self.level,
      "coverage": cov,
      "assumptions": self.assumptions,
      "wall_s": round(time.time() - self.t0, 2),
      "violations": len(self.violations),
      "known_findings": [k[0] for k in self.known],
      "violation_list": [{k: v[k] for k in ("kind", "signature", "replay", "count")} for v in self.violations],
    }
    # runs against a scratch copy of the repo (GRIST_REPO, seeded-change testing) may send their evidence elsewhere
    ev_dir = os.environ.get("VERIF_EVIDENCE_DIR") or os.path.join(VERIF, "evidence")
    os.makedirs(ev_dir, exist_ok=True)
    with open(os.path.join(ev_dir, self.pid + ".json"), "w") as f:
      json.dump(ev, f, indent=1, default=str)
    for sig, what in self.known:
      print("KNOWN-FINDING: property=%s %s" % (self.pid, what))
    # an undischarged obligation with no violation recorded is still a violation of "shown to hold"
    if n_dis != n_obl and not self.violations:
      self.broken("lean-obligations", "; ".join("%s: %s" % (o[0], o[2]) for o in self.obligations if not o[1]))
    for v in self.violations:
      tail = " no-failing-input-found" if v["kind"] == "no-failing-input-found" else ""
      print("VIOLATION property=%s replay=%s%s" % (self.pid, v["replay"], tail))
      print("  # %s: %s" % (v["signature"], str(v["detail"])[:400]))
    if self.violations:
      # evidence must reflect final count
      ev["violations"] = len(self.violations)
      with open(os.path.join(ev_dir, self.pid + ".json"), "w") as f:
        json.dump(ev, f, indent=1, default=str)
      return 1
    print("OK property=%s tier=%s seed=%s obligations=%d/%d evaluations=%d nontrivial=%d wall=%.1fs" % (
      self.pid, self.tier, self.seed, n_dis, n_obl, self.cov["evaluations"], len(self.nontrivial),
      time.time() - self.t0))
    return 0


def load_known_findings():
  p = os.path.join(VERIF, "known_findings.json")
  if not os.path.exists(p):
    return []
  return json.load(open(p)).get("findings", [])


def setup_repo_path():
  """Make the repo's CURRENT working tree importable (never cached copies)."""
  shim = os.path.join(VERIF, "harness", "shim")
  for p in (SANDBOX, shim):
    if p not in sys.path:
      sys.path.insert(0, p)
  sys.dont_write_bytecode = True


def main(argv):
  import argparse
  import importlib
  ap = argparse.ArgumentParser()
  ap.add_argument("pid")
  ap.add_argument("--tier", default=os.environ.get("VERIF_TIER", "quick"))
  ap.add_argument("--seed", default=os.environ.get("VERIF_SEED", "0"))
  ap.add_argument("--replay", default=None)
  a = ap.parse_args(argv)
  try:
    seed = int(a.seed)
  except ValueError:
    seed = int(hashlib.sha1(a.seed.encode()).hexdigest()[:8], 16)
  pid = a.pid.upper()
  setup_repo_path()
  mod = importlib.import_module("gx.props." + pid.lower())
  ck = Check(pid, a.tier, seed, level=getattr(mod, "LEVEL", "proof"))
  try:
    if a.replay:
      rp = json.load(open(a.replay))
      mod.replay(ck, rp)
    else:
      mod.run(ck)
    return ck.finish()
  except Infra as e:
    print("INFRA-FAILURE property=%s: %s" % (pid, e))
    return 2
  except subprocess.TimeoutExpired as e:
    print("INFRA-FAILURE property=%s: timeout %s" % (pid, e))
    return 2
  except Exception:
    traceback.print_exc()
    print("INFRA-FAILURE property=%s: harness exception" % pid)
    return 2
