"""
Correspondence between the real engine and the Lean EngineModel / Doc replica.

For one history: build the list of driver ops while the history runs on the real engine
(`init`, then per bundle `bundle` (step word) + `obs` for session M, and `apply` (stored only) +
`obs` for the replica session P), run the compiled driver once, and diff:

  * model stored / undo / direct  ==  ActionGroup.get_repr() of the engine        (per bundle)
  * model document M  ==  engine.fetch_table of every table + engine.schema       (per bundle)
  * replica document P (fed only `stored`)  ==  the same                           (per bundle)
  * every calc delta's `before` equals the model's cell (no change without an action)
"""
import json

from gx import engine_driver as ed


def doc_json(doc, tables=None, snap=None):
  """Engine document as the driver's `init` format (exact tokens + column infos from engine.schema)."""
  out = {}
  if snap is None:
    snap = doc.snapshot(tables=tables)
  sch = doc.engine_schema()
  for tid, t in snap.items():
    if tables is not None and tid not in tables:
      continue
    cols = {}
    for cid, vals in t["cols"].items():
      info = sch.get(tid, {}).get(cid)
      if info is None:
        continue
      cols[cid] = {"info": {"type": info[0], "isFormula": info[1], "formula": info[2],
                            "reverseColId": info[3]}, "vals": vals}
    out[tid] = {"ids": t["ids"], "cols": cols}
  return out


def engine_obs(doc, tables=None, snap=None):
  """What the model's `obs` is compared with."""
  return doc_json(doc, tables, snap)


def touched_tables(res):
  """Tables named by the bundle's steps / stored actions (plus rename targets)."""
  out = set()
  for s in (res.steps or []):
    if s[0] == "doc":
      a = s[1]
      out.add(a[1])
      if a[0] == "RenameTable":
        out.add(a[2])
    elif s[0] in ("calc", "flushcol"):
      out.add(s[1])
  return out


class Tie(object):
  def __init__(self, label):
    self.label = label
    self.ops = []
    self.expect = []     # parallel to ops: None or a callable(answer) -> list of problems
    self.problems = []   # (kind, detail, bundle_index)
    self.n_bundles = 0
    self.n_steps = 0
    self.step_kinds = {}

  def init(self, doc):
    dj = doc_json(doc)
    for sid in ("M", "P"):
      self.ops.append({"m": "engine", "op": "init", "sid": sid, "doc": dj})
      self.expect.append(lambda ans: [("driver", str(ans))] if "error" in ans else [])

  def bundle(self, doc, res, index, compare_lists=True, snap=None, full=False):
    """Record one bundle: `res` is the BundleResult (with steps), `doc` the engine after it."""
    self.n_bundles += 1
    steps = res.steps or []
    self.n_steps += len(steps)
    for s in steps:
      self.step_kinds[s[0]] = self.step_kinds.get(s[0], 0) + 1
    self.ops.append({"m": "engine", "op": "bundle", "sid": "M", "steps": steps})
    if res.ok:
      stored, undo, direct = res.stored, res.undo, res.direct
      def chk(ans, stored=stored, undo=undo, direct=direct):
        out = []
        if "error" in ans:
          return [("driver", ans["error"])]
        for n in ans["notes"]:
          out.append(("model-note", n))
        if ans["calc_before_mismatch"]:
          out.append(("calc-before", "%d calc deltas whose `before` differs from the model's cell "
                      "(a cell changed without an action)" % ans["calc_before_mismatch"]))
        if compare_lists:
          if jnorm(ans["stored"]) != jnorm(stored):
            out.append(("stored", first_diff(jnorm(ans["stored"]), jnorm(stored))))
          if jnorm(ans["undo"]) != jnorm(undo):
            out.append(("undo", first_diff(jnorm(ans["undo"]), jnorm(undo))))
          if ans["direct"] != direct:
            out.append(("direct", "model %r engine %r" % (ans["direct"], direct)))
        return out
      self.expect.append(chk)
    else:
      def chk(ans):
        if "error" in ans:
          return [("driver", ans["error"])]
        out = []
        if ans["stored"] or ans["undo"] or ans["direct"]:
          out.append(("rollback-lists", "after a rejected bundle the model keeps stored=%d undo=%d direct=%d" % (
            len(ans["stored"]), len(ans["undo"]), len(ans["direct"]))))
        for n in ans["notes"]:
          if n.startswith("rollback") or n.startswith("unknown") or n.startswith("unparsed"):
            out.append(("model-note", n))
        return out
      self.expect.append(chk)
    all_tables = sorted(doc.engine.tables.keys())
    if full:
      tables = None
      obs_op = {"m": "engine", "op": "obs"}
    else:
      tables = sorted((touched_tables(res) | set(doc.user_tables())) & set(all_tables) | (touched_tables(res)))
      obs_op = {"m": "engine", "op": "obs", "tables": tables}
    eo = engine_obs(doc, None if full else [t for t in tables if t in doc.engine.tables], snap)
    def chk_obs(ans, eo=eo, exact=True, which="doc-M", all_tables=all_tables):
      if "error" in ans and isinstance(ans["error"], str):
        return [("driver", ans["error"])]
      if "partial" in ans:
        out = []
        if sorted(ans["all_tables"]) != all_tables:
          out.append((which, "table sets differ: model %r engine %r" % (
            sorted(set(ans["all_tables"]) - set(all_tables)), sorted(set(all_tables) - set(ans["all_tables"])))))
        return out + [(which, d) for d in diff_obs(ans["partial"], eo, exact)[:2]]
      return [(which, d) for d in diff_obs(ans, eo, exact)[:2]]
    self.ops.append(dict(obs_op, sid="M"))
    self.expect.append(chk_obs)
    if res.ok:
      self.ops.append({"m": "engine", "op": "apply", "sid": "P", "actions": res.stored})
      self.expect.append(lambda ans: [("replica-apply", ans["error"])] if "error" in ans else [])
      self.ops.append(dict(obs_op, sid="P"))
      self.expect.append(lambda ans, f=chk_obs: f(ans, exact=False, which="doc-P"))
      # C08: the Lean decision procedure `schemaConsistentB` on the replica must agree with the
      # engine-side oracle (engine.schema == build_schema(metadata), no stray column records)
      eng_ok = (doc.engine_schema() == doc.meta_schema())
      if eng_ok:
        mt = doc.engine.fetch_table('_grist_Tables')
        mc = doc.engine.fetch_table('_grist_Tables_column')
        eng_ok = not (set(mc.columns['parentId']) - set(mt.row_ids))
      self.ops.append({"m": "engine", "op": "schema_consistent", "sid": "P"})
      self.expect.append(lambda ans, eng_ok=eng_ok: [("driver", ans["error"])] if "error" in ans else (
        [] if ans["consistent"] == eng_ok else
        [("schema-pred", "model SchemaConsistent=%s, engine oracle=%s" % (ans["consistent"], eng_ok))]))
    if res.ok:
      for f in getattr(self, "extra", []):
        for (op, chk) in f(doc, res):
          self.ops.append(op)
          self.expect.append(chk)
    for _ in range(len(self.ops) - len(self.expect)):
      self.expect.append(None)
    self._tag_last(index)

  def _tag_last(self, index):
    if not hasattr(self, "op_bundle"):
      self.op_bundle = []
    while len(self.op_bundle) < len(self.ops):
      self.op_bundle.append(index)

  def resync(self, doc):
    """After an event the model cannot follow (e.g. abandoned history), restart both sessions."""
    self.init(doc)
    self._tag_last(-1)

  def finish(self, answers):
    for i, (ans, exp) in enumerate(zip(answers, self.expect)):
      if exp is None:
        continue
      for (kind, detail) in exp(ans):
        bi = self.op_bundle[i] if hasattr(self, "op_bundle") and i < len(self.op_bundle) else -1
        self.problems.append((kind, detail, bi))
    return self.problems


def jnorm(x):
  """Canonicalisation shared by both sides of every comparison: in list-typed columns the engine's
  `Column.set` turns a string that is a JSON list (ChoiceListColumn.set, ReferenceListColumn.
  _clean_up_value) into the list itself; the model keeps the string.  Both are mapped to the list
  token.  (Documented coarsening: a Text cell "[1, 4]" and a list cell [1, 4] compare equal.)"""
  if isinstance(x, str):
    if x.startswith("sRecordList(["):
      # the alt-text encoding of a rich RecordList object sitting in a column whose type does not accept it (e.g. a
      # summary table's `group` column while a rejected bundle had it converted): the encoding of such an object
      # depends on the column type of the moment, the object itself is the list of row ids
      import re
      m = re.match(r"sRecordList\(\[([0-9, ]*)\]", x)
      if m:
        return ed.tok(["L"] + [int(t) for t in m.group(1).replace(" ", "").split(",") if t])
    if x.startswith("s["):
      try:
        v = json.loads(x[1:])
      except ValueError:
        return x
      if isinstance(v, list):
        return ed.tok(["L"] + v)
    return x
  if isinstance(x, list):
    return [jnorm(y) for y in x]
  if isinstance(x, dict):
    return {k: jnorm(v) for k, v in x.items()}
  return x


def first_diff(model, engine):
  if len(model) != len(engine):
    for i, (a, b) in enumerate(zip(model, engine)):
      if a != b:
        return "lengths %d/%d; first difference at %d: model %s engine %s" % (
          len(model), len(engine), i, json.dumps(a)[:300], json.dumps(b)[:300])
    return "lengths differ: model %d engine %d; extra: %s" % (
      len(model), len(engine), json.dumps((model + engine)[min(len(model), len(engine))])[:300])
  for i, (a, b) in enumerate(zip(model, engine)):
    if a != b:
      return "at %d: model %s engine %s" % (i, json.dumps(a)[:300], json.dumps(b)[:300])
  return "?"


def diff_obs(model, engine, exact=True):
  out = []
  if "error" in model and isinstance(model.get("error"), str):
    return ["driver error: " + model["error"]]
  f = (lambda x: x) if exact else ed.ntok
  for t in sorted(set(model) | set(engine)):
    if t not in model:
      out.append("table %s only in engine" % t); continue
    if t not in engine:
      out.append("table %s only in model" % t); continue
    mt, et = model[t], engine[t]
    if mt["ids"] != et["ids"]:
      out.append("table %s rows: model %r engine %r" % (t, mt["ids"][:10], et["ids"][:10])); continue
    for c in sorted(set(mt["cols"]) | set(et["cols"])):
      if c not in mt["cols"]:
        out.append("column %s.%s only in engine" % (t, c)); continue
      if c not in et["cols"]:
        out.append("column %s.%s only in model" % (t, c)); continue
      mi, ei = mt["cols"][c]["info"], et["cols"][c]["info"]
      mi = dict(mi); mi.setdefault("reverseColId", None)
      ei = dict(ei)
      if not ei.get("reverseColId"):
        ei["reverseColId"] = None
      if mi != ei:
        out.append("column info %s.%s: model %r engine %r" % (t, c, mi, ei)); continue
      mv, ev = jnorm(mt["cols"][c]["vals"]), jnorm(et["cols"][c]["vals"])
      if mv != ev:
        for i, r in enumerate(mt["ids"]):
          if f(mv[i]) != f(ev[i]):
            out.append("cell %s[%s].%s: model %r engine %r" % (t, r, c, mv[i], ev[i]))
            break
    if len(out) > 4:
      break
  return out
