"""
Shared by C22 / C24: Python values <-> the JSON form of lean/GristModel/PyVal.lean.

  build(spec, ctx)     a JSON-able *spec* (what replays store) -> the Python value
  Ser(ctx).val(v)      Python value -> PyVal JSON (with the per-node parameters: str/repr/type name
                       of compound objects, bytes.decode / float(bytes), date/datetime stamps)
  Ser.enc(x)           marshalled structure -> Enc JSON
  prim_tables(...)     the finite tables that instantiate the model's `Prim` parameter functions,
                       computed with the real primitives (float(), repr(), "%.15g", json.loads,
                       moment.parse_iso*, RecordList.from_repr, moment.ts_to_dt/ts_to_date)
  strip(j)             canonical form of a result for comparison (drops the `m` parameter fields)
  specs(rng, ...)      adversarial table + random compositions of specs
"""
import datetime
import json
import math
import struct

TWO53 = 2 ** 53
ZONES = ["America/New_York", "UTC", "Asia/Tokyo", "Europe/London", "Australia/Lord_Howe", "Asia/Kolkata"]
TYPES = ["Text", "Blob", "Any", "Bool", "Int", "Numeric", "Date", "DateTime", "Choice", "ChoiceList",
         "PositionNumber", "ManualSortPos", "Id", "Ref", "RefList", "Attachments"]


# column types of the table V of the context engine (DateTime in the zone ZONES[0])
V_TYPES = ["Text", "Any", "Bool", "Int", "Numeric", "Date", "DateTime:" + ZONES[0], "Choice", "ChoiceList",
           "Ref:T1", "RefList:T1", "Attachments"]

# ---------------------------------------------------------------------------------- classes used
class SubStr(str):
  pass

class SubInt(int):
  pass

class SubFloat(float):
  pass

class SubBytes(bytes):
  pass

class Plain(object):
  """opaque object: default str/repr (contains an address), truthy"""

class WithStr(object):
  def __init__(self, s, truthy=True):
    self.s = s
    self.truthy = truthy
  def __str__(self):
    return self.s
  def __repr__(self):
    return "WithStr(%r)" % (self.s,)
  def __bool__(self):
    return self.truthy

class BadStr(object):
  """str() raises, repr() works"""
  def __str__(self):
    raise ValueError("no str")
  def __repr__(self):
    return "<BadStr>"

class BadStrRepr(object):
  """both str() and repr() raise"""
  def __str__(self):
    raise ValueError("no str")
  def __repr__(self):
    raise ValueError("no repr")

class BadBool(object):
  def __bool__(self):
    raise ValueError("no bool")
  def __repr__(self):
    return "<BadBool>"

# hostile objects: only for the search stream (not in the model's universe)
class BadEq(object):
  def __eq__(self, other):
    raise ValueError("no eq")
  __hash__ = None
  def __repr__(self):
    return "<BadEq>"

class BadIter(object):
  def __iter__(self):
    raise ValueError("no iter")
  def __repr__(self):
    return "<BadIter>"

class BadFloat(object):
  def __float__(self):
    raise ValueError("no float")
  def __int__(self):
    raise ValueError("no int")
  def __repr__(self):
    return "<BadFloat>"

class FloatLike(object):
  def __init__(self, x):
    self.x = x
  def __float__(self):
    return self.x
  def __repr__(self):
    return "FloatLike(%r)" % (self.x,)

class Unhashable(object):
  __hash__ = None
  def __repr__(self):
    return "<Unhashable>"


# ---------------------------------------------------------------------------------- context
class Ctx(object):
  """A live engine with two small tables (Record / RecordSet need real tables) and the zone of
  the DateTime column."""
  _engine = None

  def __init__(self, zone="America/New_York"):
    import moment
    self.zone_name = zone
    self.zone = moment.Zone(zone)
    if Ctx._engine is None:
      Ctx._engine = make_engine()
    self.engine = Ctx._engine

  def table(self, name):
    return self.engine.tables[name]


def make_engine():
  import logging
  logging.disable(logging.CRITICAL)
  import engine
  import useractions
  eng = engine.Engine()
  eng.load_empty()
  def ua(*a):
    eng.apply_user_actions([useractions.from_repr(list(a))])
  ua('AddTable', 'T1', [{'id': 'A', 'type': 'Int'}, {'id': 'R', 'type': 'RefList:T1'}])
  ua('AddTable', 'T2', [{'id': 'B', 'type': 'Text'}])
  ua('BulkAddRecord', 'T1', [None] * 4, {'A': [1, 2, 3, 4]})
  ua('BulkAddRecord', 'T2', [None] * 2, {'B': ['x', 'y']})
  # one column per column type (C07 value level: real column objects for convert / set)
  ua('AddTable', 'V', [{'id': 'c_' + t.split(':')[0], 'type': t} for t in V_TYPES])
  ua('BulkAddRecord', 'V', [None] * 3, {})
  return eng


# ---------------------------------------------------------------------------------- build
def build(spec, ctx):
  import moment
  import objtypes
  k = spec[0]
  if k == "none": return None
  if k == "bool": return bool(spec[1])
  if k == "int": return int(spec[1])
  if k == "I": return SubInt(int(spec[1]))
  if k == "float": return float.fromhex(spec[1]) if isinstance(spec[1], str) and "x" in spec[1] else float(spec[1])
  if k == "nanbits": return struct.unpack("<d", struct.pack("<Q", int(spec[1])))[0]
  if k == "Fl": return SubFloat(float.fromhex(spec[1]) if "x" in spec[1] else float(spec[1]))
  if k == "str": return spec[1]
  if k == "S": return SubStr(spec[1])
  if k == "bytes": return bytes.fromhex(spec[1])
  if k == "B": return SubBytes(bytes.fromhex(spec[1]))
  if k == "list": return [build(x, ctx) for x in spec[1]]
  if k == "tuple": return tuple(build(x, ctx) for x in spec[1])
  if k == "set": return set(build(x, ctx) for x in spec[1])
  if k == "fset": return frozenset(build(x, ctx) for x in spec[1])
  if k == "dict": return {build(a, ctx): build(b, ctx) for a, b in spec[1]}
  if k == "date": return datetime.date(*spec[1])
  if k == "datetime":
    tz = spec[2] if len(spec) > 2 else None
    if tz is None: tzinfo = None
    elif tz == "stdutc": tzinfo = datetime.timezone.utc
    elif tz.startswith("fixed:"): tzinfo = datetime.timezone(datetime.timedelta(minutes=int(tz[6:])))
    else: tzinfo = moment.tzinfo(tz)
    return datetime.datetime(*spec[1], tzinfo=tzinfo)
  if k == "rec": return ctx.table(spec[1]).Record(spec[2])
  if k == "rset":
    rows = tuple(spec[2]) if (len(spec) > 3 and spec[3]) else list(spec[2])
    sort_by = spec[4] if len(spec) > 4 else None
    if isinstance(sort_by, list): sort_by = tuple(sort_by)
    group_by = spec[5] if len(spec) > 5 else None
    return ctx.table(spec[1]).RecordSet(rows, sort_by=sort_by, group_by=group_by)
  if k == "rlist": return objtypes.RecordList(list(spec[1]))
  if k == "alt": return objtypes.AltText(spec[1])
  if k == "raised":
    # ["raised", excClass, message, mode]  mode: "plain" | "msg" | "details" | ["ui", spec]
    cls = {"ValueError": ValueError, "ZeroDivisionError": ZeroDivisionError, "KeyError": KeyError,
           "TypeError": TypeError}.get(spec[1], ValueError)
    err = cls(spec[2])
    mode = spec[3] if len(spec) > 3 else "plain"
    if mode == "plain": return objtypes.RaisedException(err)
    if mode == "details":
      try:
        raise err
      except Exception as e:   # traceback.format_exc needs an active exception
        return objtypes.RaisedException(e, include_details=True)
    if mode == "typed":
      return objtypes.RaisedException(objtypes.InvalidTypedValue(spec[1], spec[2]))
    if mode == "cell":
      return objtypes.RaisedException(objtypes.CellError("T1", "A", 3, err), user_input=0)
    if mode == "decoded":
      return objtypes.RaisedException.decode_args(*spec[4])
    return objtypes.RaisedException(err, user_input=build(mode[1], ctx))
  if k == "stub": return objtypes.RecordStub(spec[1], spec[2])
  if k == "sstub": return objtypes.RecordSetStub(spec[1], spec[2])
  if k == "unm": return objtypes.UnmarshallableValue(spec[1])
  if k == "pending": return objtypes._pending_sentinel
  if k == "censored": return objtypes._censored_sentinel
  if k == "obj":
    kind = spec[1]
    if kind == "plain": return Plain()
    if kind == "withstr": return WithStr(spec[2], spec[3] if len(spec) > 3 else True)
    if kind == "badstr": return BadStr()
    if kind == "badstrrepr": return BadStrRepr()
    if kind == "badbool": return BadBool()
    if kind == "complex": return complex(spec[2], spec[3])
    if kind == "timedelta": return datetime.timedelta(seconds=spec[2])
    if kind == "time": return datetime.time(spec[2], spec[3])
    if kind == "function": return build
    if kind == "type": return int
    if kind == "ellipsis": return Ellipsis
    if kind == "notimpl": return NotImplemented
    # hostile (search stream only)
    if kind == "badeq": return BadEq()
    if kind == "baditer": return BadIter()
    if kind == "badfloat": return BadFloat()
    if kind == "floatlike": return FloatLike(spec[2])
    if kind == "unhashable": return Unhashable()
    if kind == "range": return range(spec[2])
    if kind == "gen": return (i for i in range(spec[2]))
    if kind == "decimal":
      import decimal
      return decimal.Decimal(spec[2])
    if kind == "fraction":
      import fractions
      return fractions.Fraction(spec[2])
    if kind == "bytearray": return bytearray(bytes.fromhex(spec[2]))
    if kind == "memoryview": return memoryview(bytes.fromhex(spec[2]))
    if kind == "cyclic":
      l = [1]
      l.append(l)
      return l
    if kind == "cyclicdict":
      d = {}
      d["self"] = d
      return d
    if kind == "deep":
      l = []
      for _ in range(spec[2]):
        l = [l]
      return l
    if kind == "deepdict":
      d = {}
      for _ in range(spec[2]):
        d = {"k": d}
      return d
    if kind == "reflookup": return objtypes.ReferenceLookup(spec[2])
  raise ValueError("bad spec %r" % (spec,))

HOSTILE_KINDS = {"badeq", "baditer", "badfloat", "floatlike", "unhashable", "range", "gen", "decimal",
                 "fraction", "bytearray", "memoryview", "cyclic", "cyclicdict", "deep", "deepdict",
                 "reflookup"}

def is_hostile(spec):
  """Outside the model's universe (hostile protocol methods, foreign numerics / iterables,
  cyclic or very deep containers): search stream only."""
  if not isinstance(spec, list) or not spec:
    return False
  if spec[0] == "obj" and spec[1] in HOSTILE_KINDS:
    return True
  if spec[0] == "fset":
    return True
  return any(is_hostile(x) for x in spec if isinstance(x, list))


# ---------------------------------------------------------------------------------- serialise
class NotInUniverse(Exception):
  pass

def fbits(x):
  return struct.unpack("<Q", struct.pack("<d", x))[0]

def f_json(x):
  x = float.__float__(x) if type(x) is not float else x
  if x != x: return {"k": "nan", "bits": fbits(x)}
  if x in (float("inf"), float("-inf")): return {"k": "inf", "neg": x < 0}
  if x == 0 and math.copysign(1.0, x) < 0: return {"k": "nz"}
  if x == int(x): return {"k": "int", "n": int(x)}
  return {"k": "frac", "bits": fbits(x), "trunc": int(x)}

def f_key(fj):
  return json.dumps(fj, sort_keys=True)

_LINESEP = set("\x0b\x0c\x1c\x1d\x1e\x85\u2028\u2029")

def has_surrogate(s):
  """strings that cannot cross the driver pipe: lone surrogates (not UTF-8 encodable) and the
  characters str.splitlines() treats as line ends (the driver's answers are split with it)"""
  return any(0xD800 <= ord(c) <= 0xDFFF or c in _LINESEP for c in s)


class Ser(object):
  def __init__(self, ctx):
    self.ctx = ctx
    self.floats = {}      # f_key -> python float
    self.strings = set()
    self.bigints = set()
    self.ints = set()
    self.dts = []         # (ets float, zone name) of encodable datetimes
    self.dates = {}       # days -> date json

  def _s(self, s):
    if not isinstance(s, str):
      raise NotInUniverse("non-str where a str is expected: %r" % (type(s),))
    s = str.__str__(s)
    if has_surrogate(s):
      raise NotInUniverse("lone surrogate / line separator character")
    self.strings.add(s)
    return s

  def _f(self, x):
    fj = f_json(x)
    self.floats[f_key(fj)] = float(x)
    return fj

  def _of(self, fn):
    try:
      x = fn()
    except Exception:
      return None
    return self._f(x)

  def meta(self, v):
    try:
      s = self._s(str(v))
    except NotInUniverse:
      raise
    except Exception:
      s = None
    try:
      r = self._s(repr(v))
    except NotInUniverse:
      raise
    except Exception:
      r = None
    return {"s": s, "r": r, "n": type(v).__name__}

  def enc(self, x):
    """marshalled structure -> Enc JSON"""
    t = type(x)
    if x is None: return {"t": "none"}
    if t is bool: return {"t": "bool", "b": x}
    if t is int:
      return {"t": "int", "n": x}
    if t is float: return {"t": "float", "f": self._f(x)}
    if t is str: return {"t": "str", "s": self._s(x)}
    if t is list: return {"t": "list", "xs": [self.enc(y) for y in x]}
    if t is tuple: return {"t": "tuple", "xs": [self.enc(y) for y in x]}
    if t is dict:
      ks = []
      for k in x:
        if not isinstance(k, str):
          raise NotInUniverse("non-str key in marshalled dict")
        ks.append([self._s(k), type(k) is not str])
      return {"t": "dict", "ks": ks, "vs": [self.enc(y) for y in x.values()]}
    raise NotInUniverse("not a marshalled structure: %r" % (t,))

  def val(self, v, depth=0):
    import moment
    import objtypes
    import records
    if depth > 40:
      raise NotInUniverse("too deep")
    d = depth + 1
    if v is None: return {"t": "none"}
    if type(v) is bool: return {"t": "bool", "b": v}
    if isinstance(v, int):
      n = int.__int__(v)
      self.ints.add(n)
      if abs(n) > TWO53: self.bigints.add(n)
      self._s(str(n))
      return {"t": "int", "n": n, "sub": type(v) is not int}
    if isinstance(v, float):
      return {"t": "float", "f": self._f(v), "sub": type(v) is not float}
    if isinstance(v, str):
      return {"t": "str", "s": self._s(v), "sub": type(v) is not str}
    if isinstance(v, bytes):
      try:
        u = self._s(v.decode('utf8'))
      except NotInUniverse:
        raise
      except Exception:
        u = None
      return {"t": "bytes", "m": self.meta(v), "items": list(v), "utf8": u,
              "af": self._of(lambda: float(v))}
    if isinstance(v, objtypes.RecordList):
      rows = list(v)
      if not all(type(x) is int for x in rows):
        raise NotInUniverse("RecordList of non-ints")
      return {"t": "recordList", "rows": rows, "gb": self._s(repr(v._group_by)),
              "sb": self._s(repr(v._sort_by))}
    if type(v) is list:
      return {"t": "list", "m": self.meta(v), "xs": [self.val(x, d) for x in v]}
    if type(v) is tuple:
      return {"t": "tuple", "m": self.meta(v), "xs": [self.val(x, d) for x in v]}
    if type(v) is set:
      return {"t": "set", "m": self.meta(v), "xs": [self.val(x, d) for x in v]}
    if type(v) is dict:
      return {"t": "dict", "m": self.meta(v), "ks": [self.val(x, d) for x in v.keys()],
              "vs": [self.val(x, d) for x in v.values()]}
    if isinstance(v, datetime.datetime):
      ld = (v.date() - moment.DATE_EPOCH).days
      zts = self._of(lambda: moment.dt_to_ts(v, self.ctx.zone))
      ets = self._of(lambda: moment.dt_to_ts(v))
      try:
        zone = self._s(v.tzinfo.zone.name if v.tzinfo else 'UTC')
      except NotInUniverse:
        raise
      except Exception:
        zone = None
      if ets is not None and zone is not None:
        self.dts.append((moment.dt_to_ts(v), zone))
      return {"t": "datetime", "m": self.meta(v), "ld": ld, "zts": zts, "ets": ets, "zone": zone}
    if isinstance(v, datetime.date):
      days = (v - moment.DATE_EPOCH).days
      j = {"t": "date", "m": self.meta(v), "days": days,
           "zts": self._f(moment.date_to_ts(v, self.ctx.zone))}
      self.dates[days] = j
      return j
    if isinstance(v, records.Record):
      if type(v._row_id) is not int:
        raise NotInUniverse("Record with non-int row id")
      t = self._s(v._table.table_id)
      self._s(repr(v))
      return {"t": "record", "table": t, "row": v._row_id}
    if isinstance(v, records.RecordSet):
      rows = list(v._row_ids)
      if not all(type(x) is int for x in rows):
        raise NotInUniverse("RecordSet with non-int row ids")
      self._s(repr(v))
      return {"t": "recordSet", "table": self._s(v._table.table_id), "rows": rows,
              "tup": type(v._row_ids) is tuple, "ids": [rec.id for rec in v],
              "gb": self._s(repr(v._group_by)), "sb": self._s(repr(v._sort_by))}
    if isinstance(v, objtypes.AltText):
      return {"t": "altText", "s": self._s(v._text)}
    if isinstance(v, objtypes.RaisedException):
      ui = [] if v.user_input is objtypes.RaisedException.NO_INPUT else [self.val(v.user_input, d)]
      return {"t": "raised", "m": self.meta(v), "name": self.enc(v._name), "msg": self.enc(v._message),
              "details": self.enc(v.details), "ui": ui}
    if isinstance(v, objtypes.RecordStub):
      return {"t": "recordStub", "m": self.meta(v), "a": self.enc(v.table_id), "b": self.enc(v.row_id)}
    if isinstance(v, objtypes.RecordSetStub):
      return {"t": "recordSetStub", "m": self.meta(v), "a": self.enc(v.table_id), "b": self.enc(v.row_ids)}
    if isinstance(v, objtypes.UnmarshallableValue):
      return {"t": "unmarshallable", "m": self.meta(v), "r": self.enc(v.value_repr)}
    if v is objtypes._pending_sentinel:
      return {"t": "pending", "m": self.meta(v)}
    if v is objtypes._censored_sentinel:
      return {"t": "censored", "m": self.meta(v)}
    # anything else must satisfy the model's notion of an opaque object
    for a in ("__float__", "__int__", "__index__", "__iter__", "__len__", "__getitem__"):
      if hasattr(type(v), a):
        raise NotInUniverse("object with %s" % a)
    if isinstance(v, (list, tuple, set, dict, frozenset)):
      raise NotInUniverse("container subclass")
    try:
      t = bool(v)
    except Exception:
      t = None
    return {"t": "opaque", "m": self.meta(v), "truthy": t}


# ---------------------------------------------------------------------------------- Prim tables
def collect_strings(j, out):
  if isinstance(j, str):
    out.add(j)
  elif isinstance(j, dict):
    for x in j.values():
      collect_strings(x, out)
  elif isinstance(j, list):
    for x in j:
      collect_strings(x, out)

def prim_tables(ser, extra_strings=(), encs=()):
  """Tables for the model's Prim functions over every string / float / int the model can possibly
  query for the values serialised through `ser` (plus `extra_strings`), computed by the real
  primitives.  `encs`: marshalled structures about to be decoded (for the ts_to_dt / ts_to_date /
  ReferenceLookup tables)."""
  import moment
  import objtypes
  ctx = ser.ctx
  strings = set(ser.strings) | set(extra_strings)
  fs, js, idate, idt, rl = [], [], [], [], []
  sub = Ser(ctx)     # values produced by the primitives themselves
  sub.floats = ser.floats
  for s in sorted(strings):
    if has_surrogate(s):
      continue
    try:
      fs.append([s, sub._f(float(s))])
    except Exception:
      pass
    if s.startswith('['):
      try:
        js.append([s, sub.val(json.loads(s))])
      except Exception:
        pass
    else:
      try:
        rl.append([s, [int(x) for x in objtypes.RecordList.from_repr(s)]])
      except Exception:
        pass
    try:
      idate.append([s, sub._f(moment.parse_iso_date(s))])
    except Exception:
      pass
    try:
      idt.append([s, sub._f(moment.parse_iso(s, ctx.zone))])
    except Exception:
      pass
  # strings created by json.loads items need float()/... only if they get converted again: they
  # are str items of tuples, never converted by themselves.
  fb = []
  for n in sorted(ser.bigints | sub.bigints):
    try:
      fb.append([n, sub._f(float(n))])
    except OverflowError:
      fb.append([n, None])
  rf, g15 = [], []
  for k in sorted(ser.floats):
    x = ser.floats[k]
    fj = json.loads(k)
    rf.append([fj, repr(x)])
    g15.append([fj, "%.15g" % x])
  # decode side
  dt, dn, dfrac, rlk = [], [], [], []
  seen = set()
  def dt_entry(a, b):
    key = repr((a, b))
    if key in seen: return
    seen.add(key)
    try:
      ea, eb = sub.enc(a), sub.enc(b)
    except NotInUniverse:
      return
    try:
      r = {"ok": sub.val(moment.ts_to_dt(a, moment.Zone(b)))}
    except NotInUniverse:
      return
    except Exception as e:
      r = {"err": type(e).__name__}
    dt.append([ea, eb, r])
  for (ts, zone) in ser.dts:
    dt_entry(ts, zone)
  def walk(e):
    if isinstance(e, (list, tuple)):
      if len(e) >= 3 and e[0] == 'D':
        dt_entry(e[1], e[2])
      if len(e) >= 2 and e[0] == 'd':
        a = e[1]
        if type(a) is float and a == a and abs(a) != float('inf') and a != int(a):
          try:
            r = {"ok": sub.val(moment.ts_to_date(a))}
          except Exception as ex:
            r = {"err": type(ex).__name__}
          dfrac.append([f_json(a), r])
        elif type(a) in (int, float, bool) and a == a and abs(a) != float('inf'):
          try:
            sub.val(moment.ts_to_date(a))
          except Exception:
            pass
      if len(e) >= 1 and e[0] == 'l':
        try:
          ea = [sub.enc(x) for x in e[1:]]
          try:
            r = {"ok": sub.val(objtypes.ReferenceLookup(*e[1:]))}
          except NotInUniverse:
            raise
          except Exception as ex:
            r = {"err": type(ex).__name__}
          rlk.append([ea, r])
        except NotInUniverse:
          pass
      for x in e:
        walk(x)
    elif isinstance(e, dict):
      for x in e.values():
        walk(x)
  for e in encs:
    walk(e)
  alld = dict(ser.dates)
  alld.update(sub.dates)
  for days in sorted(alld):
    dn.append([days, alld[days]])
  # (re)compute after the loops above: they may have added floats
  rf = [[json.loads(k), repr(ser.floats[k])] for k in sorted(ser.floats)]
  g15 = [[json.loads(k), "%.15g" % ser.floats[k]] for k in sorted(ser.floats)]
  return {"fs": fs, "fb": fb, "rf": rf, "g15": g15, "js": js, "idate": idate, "idt": idt, "rl": rl,
          "dt": dt, "dn": dn, "dfrac": dfrac, "rlk": rlk}


def strip(j):
  """Drop the parameter fields (`m`) so that model-built and real results compare."""
  if isinstance(j, dict):
    return {k: strip(x) for k, x in j.items() if k != "m"}
  if isinstance(j, list):
    return [strip(x) for x in j]
  return j


# ---------------------------------------------------------------------------------- generators
def fhex(x):
  return float(x).hex()

def atom_table():
  """Adversarial atoms (specs)."""
  A = []
  A += [["none"], ["bool", True], ["bool", False]]
  for n in [0, 1, -1, 2, 7, 2**31 - 1, 2**31, 2**31 + 1, -2**31, -2**31 - 1, 2**53 - 1, 2**53, 2**53 + 1,
            -2**53 - 1, 2**63, 2**64, 10**30, -10**30, 10**308, 10**309, -10**400]:
    A.append(["int", n])
  A += [["I", 3], ["I", 0], ["I", 2**40]]
  for x in [0.0, -0.0, 1.0, -1.0, 1.5, -1.5, 0.1, 2.5, 1e-7, -1e-7, 0.5, -0.5, 2147483647.0, 2147483647.5,
            2147483648.0, -2147483648.0, -2147483648.5, -2147483649.0, 9007199254740991.0, 9007199254740992.0,
            -9007199254740992.0, 9007199254740994.0, 4503599627370495.5, 1e15, 1e16, 1e17, 1e22, 1e30, -1e30,
            1.7976931348623157e308, 5e-324, 123456789.123456789, 1577836800.0, 86400.0, 0.30000000000000004]:
    A.append(["float", fhex(x)])
  A += [["float", "inf"], ["float", "-inf"], ["float", "nan"], ["nanbits", 0xFFF8000000000000],
        ["nanbits", 0x7FF8000000000001], ["nanbits", 0x7FF0000000000001]]
  A += [["Fl", fhex(1.5)], ["Fl", fhex(3.0)], ["Fl", "nan"]]
  for s in ["", " ", "a", "abc", "0", "1", "00", "-0", "1.5", " 12 ", "1_000", "1e3", "1e+30", "1e400", "-1e400",
            "inf", "-Infinity", "nan", "NaN", "true", "TRUE", "True", "yes", "Yes", "no", "NO", "false", "FALSE",
            "False", "y", "n", "t", "on", "off", "tRuE", "truee", "fals",
            "\u0661\u0662", "\uff11\uff12", "12\u00a0", "2147483647", "2147483648", "-2147483648", "-2147483649",
            "9007199254740993", "12abc", "0x10", "1,5", "1 2", "\u212a", "\u0130",
            "2020-01-01", "2020-01-01T10:20:30", "2020-01-01 10:20:30.5", "2020-01-01T10:20:30Z",
            "2020-01-01T10:20:30+05:30", "2020-13-01", "2020-02-30", "20200101", "2020-01", "2020", "0001-01-01",
            "9999-12-31", "9999-12-31T23:59:59.999999", "1969-12-31", "2020-03-08T02:30:00", "2020-11-01T01:30:00",
            "[]", "[ ]", " []", "[1,2]", "[1, 2]", "[1, 2", "[1,2]x", "[1.5]", "[1.0]", "[0]", "[-1]", "[true]",
            "[false]", "[null]", "[\"a\"]", "[\"a\", \"b\"]", "[\"\"]", "[[1]]", "[[]]", "[{\"a\": 1}]", "[1e400]",
            "[NaN]", "[2147483648]", "[1, \"2\"]", "['a']", "[1,]", "[\"\\u00e9\"]", "[1, 2.5, \"x\", null, true]",
            "[99999999999999999999]", "\"abc\"", "{\"a\": 1}", "{}", "null", "123",
            "RecordList([1, 2], group_by=None, sort_by=None)", "RecordList([], group_by=None, sort_by=None)",
            "RecordList([1,2", "RecordList([3])", "RecordList([-1, 0])", "RecordList([1_0])",
            "RecordList([ 7 ])", "RecordList([2147483648])", "RecordList([1.5])", "RecordList([a])",
            "RecordList([1, 2], group_by=('A',), sort_by='A')", "RecordList(", "recordlist([1])",
            "T1[1]", "T1[[1, 2]]", "None", "b'abc'", "\u00e9t\u00e9", "\u4e2d\u6587", "\U0001f600", "a\x00b", "\n", "\t1\n"]:
    A.append(["str", s])
  A += [["S", "abc"], ["S", ""], ["S", "12"], ["S", "[1, 2]"], ["S", "true"], ["S", "[\"a\"]"], ["S", "2020-01-01"]]
  for h in ["", "00", "6162", "3132", "2031322e3520", "ff", "c3a9", "c328", "e4b8ad", "5b315d", "0102", "d9a1",
            "696e66", "6e616e", "315f30", "74727565"]:
    A.append(["bytes", h])
  A += [["B", "3132"], ["B", "ff"]]
  A += [["date", [2020, 1, 1]], ["date", [1970, 1, 1]], ["date", [1, 1, 1]], ["date", [9999, 12, 31]],
        ["date", [1969, 12, 31]], ["date", [2020, 3, 8]], ["date", [999, 5, 6]]]
  for tz in [None, "UTC", "America/New_York", "Asia/Tokyo", "Australia/Lord_Howe", "stdutc", "fixed:330"]:
    A.append(["datetime", [2020, 1, 1, 10, 20, 30, 123456], tz])
  A += [["datetime", [2020, 3, 8, 2, 30, 0, 0], "America/New_York"],
        ["datetime", [2020, 11, 1, 1, 30, 0, 0], "America/New_York"],
        ["datetime", [2020, 3, 8, 2, 30, 0, 0], None],
        ["datetime", [1970, 1, 1, 0, 0, 0, 0], None],
        ["datetime", [1969, 12, 31, 23, 59, 59, 999999], "UTC"],
        ["datetime", [1, 1, 1, 0, 0, 0, 0], None], ["datetime", [1, 1, 1, 0, 0, 0, 0], "Asia/Tokyo"],
        ["datetime", [1, 1, 1, 0, 0, 0, 0], "America/New_York"],
        ["datetime", [9999, 12, 31, 23, 59, 59, 0], None], ["datetime", [9999, 12, 31, 23, 59, 59, 999900], None],
        ["datetime", [9999, 12, 31, 23, 0, 0, 0], "America/New_York"],
        ["datetime", [9999, 12, 31, 23, 0, 0, 0], "Asia/Tokyo"],
        ["datetime", [5000, 1, 1, 0, 0, 0, 1], None], ["datetime", [2242, 3, 16, 12, 56, 31, 999999], "UTC"],
        ["datetime", [1883, 11, 18, 12, 0, 0, 0], "America/New_York"],
        ["datetime", [1800, 1, 1, 0, 0, 0, 0], "Europe/London"]]
  for t, r in [("T1", 1), ("T1", 2), ("T1", 0), ("T1", 99), ("T2", 1), ("T2", 0), ("_grist_Attachments", 0)]:
    A.append(["rec", t, r])
  A += [["rset", "T1", [1, 3]], ["rset", "T1", []], ["rset", "T1", [2, 2, 1]], ["rset", "T1", [1, 2], True],
        ["rset", "T1", [], True], ["rset", "T1", [4], True], ["rset", "T1", [99, 2]], ["rset", "T1", [0]],
        ["rset", "T1", [3, 1], False, "A"], ["rset", "T1", [1], False, ["-A", "R"], {"A": 1}],
        ["rset", "T2", [1]], ["rset", "T2", []], ["rset", "_grist_Attachments", []],
        ["rlist", [1, 2]], ["rlist", []]]
  for s in ["", "abc", "12", " 12 ", "1.5", "true", "no", "0", "2020-01-01", "2020-01-01T01:02:03", "[1, 2]", "[\"a\"]",
            "[]", "inf", "nan", "1e400", "2147483648", "RecordList([1])", "T1[1]", "\u00e9"]:
    A.append(["alt", s])
  A += [["raised", "ValueError", "boom"], ["raised", "ValueError", "boom", "details"],
        ["raised", "ZeroDivisionError", "", ["ui", ["int", 2]]], ["raised", "KeyError", "k", ["ui", ["none"]]],
        ["raised", "TypeError", "x", ["ui", ["list", [["int", 1], ["str", "a"]]]]],
        ["raised", "Date", "2020-13-01", "typed"], ["raised", "ValueError", "inner", "cell"],
        ["raised", "TypeError", "x", ["ui", ["dict", [[["str", "u"], ["int", 1]]]]]],
        ["raised", "TypeError", "x", ["ui", ["date", [2020, 1, 1]]]],
        ["raised", "TypeError", "x", ["ui", ["raised", "ValueError", "nested", ["ui", ["float", "nan"]]]]],
        ["raised", "X", "", "decoded", ["N"]], ["raised", "X", "", "decoded", ["N", None, "d"]],
        ["raised", "X", "", "decoded", ["N", "", None, {"u": ["L", 1]}]],
        ["raised", "X", "", "decoded", [None]],
        ["raised", "X", "", "decoded", ["N", "m", None, {"v": 1}]]]
  A += [["stub", "T1", 3], ["stub", "Nope", 2**40], ["sstub", "T1", [1, 2]], ["unm", "<foo>"], ["unm", ["x", 1]],
        ["pending"], ["censored"]]
  A += [["obj", "plain"], ["obj", "withstr", "12"], ["obj", "withstr", "abc"], ["obj", "withstr", ""],
        ["obj", "withstr", "true"], ["obj", "withstr", "[1]"], ["obj", "withstr", "2020-01-01"],
        ["obj", "withstr", "zzz", False], ["obj", "withstr", "0", False],
        ["obj", "badstr"], ["obj", "badstrrepr"], ["obj", "badbool"], ["obj", "complex", 1.0, 0.0],
        ["obj", "complex", 0.0, 0.0], ["obj", "timedelta", 86400], ["obj", "timedelta", 0],
        ["obj", "time", 10, 20], ["obj", "function"], ["obj", "type"], ["obj", "ellipsis"], ["obj", "notimpl"]]
  return A

def container_table():
  C = []
  L = lambda *xs: ["list", list(xs)]
  T = lambda *xs: ["tuple", list(xs)]
  i = lambda n: ["int", n]
  s = lambda x: ["str", x]
  C += [L(), T(), ["dict", []], ["set", []],
        L(i(1), i(2)), T(i(1), i(2)), L(i(0)), L(i(-1)), L(i(1), ["none"]), L(["bool", True]), L(["bool", False]),
        L(["float", fhex(1.0)]), L(["float", fhex(1.5)]), L(["float", fhex(0.0)]), L(s("1")), L(s("a"), s("b")),
        L(s("")), L(s(""), i(1)), L(L()), L(L(i(1))), L(i(2**31)), L(i(2**31 - 1), i(-2**31)), L(["I", 5]),
        T(s("a")), T(s("a"), ["S", "b"]), T(["S", "x"]), L(s("[1]")), T(i(1)), T(T()),
        L(["rec", "T1", 2], ["rec", "T2", 1]), T(["rec", "T1", 2]), L(["rec", "T1", 0]),
        L(["rset", "T1", [1, 3]], ["rset", "T1", []]), L(["rset", "T1", []]), L(["rset", "T1", []], ["rset", "T1", []]),
        L(["rset", "T1", [1, 2]], ["rset", "T1", [2, 3]]), L(["rset", "T1", [99, 2]]),
        L(["rset", "T2", [1]]), L(["rset", "T2", []]), L(["rset", "T1", [1]], ["rset", "T2", [1]]),
        L(["rset", "T1", [1]], i(2)), T(["rset", "T1", [1]]),
        L(["date", [2020, 1, 1]]), L(["alt", "x"]), L(["raised", "ValueError", "boom"]), L(["obj", "plain"]),
        L(["obj", "badstr"]), L(["obj", "badstrrepr"]), L(["bytes", "61"]), L(["float", "nan"]),
        L(s("R"), s("T1"), i(1)), L(s("d"), i(0)), L(s("L")), L(s("E"), s("x")), L(s("U"), s("x")),
        ["dict", [[s("a"), i(1)]]], ["dict", [[s("a"), i(1)], [s("b"), L(i(1))]]],
        ["dict", [[i(1), s("a")]]], ["dict", [[i(1), s("a")], [i(2), s("b")]]], ["dict", [[["S", "k"], i(1)]]],
        ["dict", [[s("k"), ["dict", [[["S", "inner"], i(1)]]]]]], ["dict", [[s(""), ["none"]]]],
        ["dict", [[["none"], i(1)]]], ["dict", [[T(i(1)), i(1)]]], ["dict", [[s("u"), ["date", [2020, 1, 1]]]]],
        ["dict", [[s("a"), ["set", [i(1)]]]]], ["dict", [[["bool", True], i(1)]]],
        ["dict", [[s("x"), ["datetime", [2020, 1, 1, 0, 0, 0, 0], "Asia/Tokyo"]]]],
        ["set", [i(1)]], ["set", [i(1), i(2), i(3)]], ["set", [s("a")]], ["set", [["none"]]],
        ["set", [i(2**31)]], L(["set", [i(1)]]),
        L(i(1), L(i(2), L(i(3), L(i(4))))), L(["dict", [[s("a"), L(["dict", [[s("b"), ["float", "nan"]]]])]]]),
        T(["date", [2020, 1, 1]], ["datetime", [2020, 1, 1, 0, 0, 0, 0], None], ["rec", "T1", 1],
          ["rset", "T1", [1]], ["alt", "z"], ["raised", "ValueError", "e"], ["bytes", "ff"], i(2**40)),
        ]
  return C

def hostile_table():
  H = [["obj", "badeq"], ["obj", "baditer"], ["obj", "badfloat"], ["obj", "floatlike", 12.5],
       ["obj", "floatlike", float("nan")], ["obj", "unhashable"], ["obj", "range", 3], ["obj", "range", 0],
       ["obj", "gen", 2], ["obj", "decimal", "1.5"], ["obj", "decimal", "NaN"], ["obj", "fraction", "3/2"],
       ["obj", "bytearray", "3132"], ["obj", "memoryview", "3132"], ["obj", "cyclic"], ["obj", "cyclicdict"],
       ["obj", "deep", 50], ["obj", "deep", 400], ["obj", "deep", 1200], ["obj", "deep", 5000],
       ["obj", "deepdict", 400], ["obj", "deepdict", 3000], ["obj", "reflookup", "x"],
       ["fset", [["int", 1]]], ["fset", []],
       ["list", [["obj", "badeq"]]], ["list", [["obj", "baditer"]]],
       ["tuple", [["obj", "floatlike", 1.0]]], ["dict", [[["str", "a"], ["obj", "badeq"]]]],
       ["set", [["obj", "decimal", "2"]]], ["list", [["obj", "deep", 1200]]]]
  return H

def random_atom(rng, atoms):
  r = rng.random()
  if r < 0.55:
    return rng.choice(atoms)
  if r < 0.65:
    return ["int", rng.choice([rng.randint(-5, 5), rng.randint(-2**33, 2**33), rng.randint(-2**70, 2**70)])]
  if r < 0.75:
    x = rng.choice([rng.uniform(-10, 10), rng.uniform(-1e10, 1e10), rng.uniform(-1, 1) * 10 ** rng.randint(-20, 40),
                    float(rng.randint(-2**33, 2**33)), rng.randint(-2**33, 2**33) + 0.5])
    return ["float", fhex(x)]
  if r < 0.9:
    alphabet = "01259.-+eE_ []\",a:TZtruefalsynoRcdLis(=N)"
    return ["str", "".join(rng.choice(alphabet) for _ in range(rng.randint(0, 8)))]
  if r < 0.95:
    return ["bytes", "".join(rng.choice("0123456789abcdef") for _ in range(2 * rng.randint(0, 4)))]
  y = rng.randint(1, 9999); m = rng.randint(1, 12); d = rng.randint(1, 28)
  if rng.random() < 0.5:
    return ["date", [y, m, d]]
  return ["datetime", [y, m, d, rng.randint(0, 23), rng.randint(0, 59), rng.randint(0, 59), rng.choice([0, 1, 500000, 999999])],
          rng.choice([None, "UTC", "America/New_York", "Asia/Tokyo", "Europe/London", "Asia/Kolkata"])]

def random_spec(rng, atoms, depth=0):
  r = rng.random()
  if depth >= 3 or r < 0.45:
    return random_atom(rng, atoms)
  n = rng.choice([0, 1, 1, 2, 2, 3, 4])
  if r < 0.65:
    return ["list", [random_spec(rng, atoms, depth + 1) for _ in range(n)]]
  if r < 0.78:
    return ["tuple", [random_spec(rng, atoms, depth + 1) for _ in range(n)]]
  if r < 0.92:
    items = []
    seen = set()
    for _ in range(n):
      kr = rng.random()
      if kr < 0.7:
        k = ["str", rng.choice(["a", "b", "u", "", "key", "\u00e9"]) + rng.choice(["", "1", "2"])]
      elif kr < 0.8:
        k = ["S", rng.choice(["a", "k"])]
      elif kr < 0.9:
        k = ["int", rng.randint(0, 3)]
      else:
        k = rng.choice([["none"], ["bool", True], ["float", fhex(1.5)], ["tuple", [["int", 1]]], ["date", [2020, 1, 1]]])
      kk = json.dumps(k[1:] if k[0] in ("str", "S") else k, sort_keys=True)
      if kk in seen: continue
      seen.add(kk)
      items.append([k, random_spec(rng, atoms, depth + 1)])
    return ["dict", items]
  items = []
  seen = set()
  for _ in range(n):
    a = rng.choice([["int", rng.randint(0, 5)], ["int", 2**31 + rng.randint(0, 3)], ["none"],
                    ["float", fhex(rng.randint(6, 9) + 0.5)], ["tuple", [["int", rng.randint(0, 2)]]],
                    ["date", [2020, 1, rng.randint(1, 3)]]])
    kk = json.dumps(a)
    if kk in seen: continue
    seen.add(kk)
    items.append(a)
  return ["set", items]


def float_law_violations(floats, ints):
  """The laws of float()/repr() that GristProps/C22.lean `FloatLaws` assumes, checked with the real
  primitives on the given floats and ints.  Returns a list of counterexamples (empty = all hold)."""
  bad = []
  for x in floats:
    r = repr(x)
    if not r:
      bad.append(("repr_ne", x)); continue
    try:
      y = float(r)
    except Exception:
      bad.append(("repr parses", x)); continue
    if x != x:
      if y == y: bad.append(("repr_nan", x))
    elif fbits(y) != fbits(x):
      bad.append(("repr_finite/repr_inf", x))
  for n in ints:
    d = str(n)
    try:
      y = float(d)
    except Exception:
      bad.append(("decimal parses", n)); continue
    try:
      x = float(n)
    except OverflowError:
      if y not in (float("inf"), float("-inf")): bad.append(("dec_huge", n))
      continue
    if fbits(x) != fbits(y):
      bad.append(("dec_small/dec_big", n))
    if abs(n) <= TWO53:
      if x != n or int(x) != n: bad.append(("dec_small exact", n))
    elif -2**31 <= int(x) < 2**31:
      bad.append(("big_not_short", n))
  return bad
