"""
Harness pieces for the recalculation properties (C05 C06 C18):
  * schedule permutation: wraps Engine._make_sorted_work_items (lookup nodes stay first, in any order among themselves);
  * evaluation trace: wraps Engine._recompute_one_cell (which cells finished, in which order,
    whether through the cycle branch);
  * read audit: wraps Engine._use_node — at the time a formula reads specific rows of a node,
    were those rows dirty?  A completed evaluation that read a dirty cell violates the machine's
    enabledness condition ("no clean cell has read a dirty cell").
  * graph documents for C18: k formula columns whose formulas are sums over subsets of columns.
"""
import itertools
import random

from gx import engine_driver as ed
import engine as engine_mod
import depend

_state = {"perm_rng": None, "trace": None, "reads": None, "installed": False}


def install():
  if _state["installed"]:
    return
  E = engine_mod.Engine
  orig_sorted = E._make_sorted_work_items

  def _make_sorted_work_items(self, nodes):
    items = orig_sorted(self, nodes)
    rng = _state["perm_rng"]
    if rng is None:
      return items
    # items are processed from the END; lookups must be processed first => they stay at the end
    look = [w for w in items if w.node.col_id.startswith('#lookup')]
    rest = [w for w in items if not w.node.col_id.startswith('#lookup')]
    rng.shuffle(rest)
    # the engine's own rule only says that lookup indexes go first: their relative order is free too
    rng.shuffle(look)
    return rest + look
  E._make_sorted_work_items = _make_sorted_work_items

  orig_one = E._recompute_one_cell

  def _recompute_one_cell(self, table, col, row_id, cycle=False, node=None, **kw):
    tr = _state["trace"]
    rd = _state["reads"]
    if rd is not None:
      rd.append(("begin", table.table_id, col.col_id, row_id))
    try:
      v = orig_one(self, table, col, row_id, cycle=cycle, node=node, **kw)
    except BaseException:
      if rd is not None:
        rd.append(("abort", table.table_id, col.col_id, row_id))
      raise
    if tr is not None:
      tr.append(("circ" if cycle else "eval", table.table_id, col.col_id, row_id))
    if rd is not None:
      rd.append(("end", table.table_id, col.col_id, row_id))
    return v
  E._recompute_one_cell = _recompute_one_cell

  orig_use = E._use_node

  def _use_node(self, node, relation, row_ids=[]):
    rd = _state["reads"]
    r = orig_use(self, node, relation, row_ids)
    # after orig_use returned normally (no OrderError): the read proceeds.  Were the rows clean?
    if rd is not None and not self._peeking:
      dirty = self.recompute_map.get(node)
      if dirty is not None:
        if dirty == depend.ALL_ROWS:
          bad = list(row_ids) if row_ids else ["ALL"]
        else:
          exempt = self._prevent_recompute_map.get(node) or ()
          bad = [r_ for r_ in (row_ids or []) if r_ in dirty and r_ not in exempt]
        if bad:
          rd.append(("dirty-read", node.table_id, node.col_id, bad[:5]))
    return r
  E._use_node = _use_node
  _state["installed"] = True


class Recording(object):
  def __init__(self, perm_seed=None, trace=False, reads=False):
    self.perm_seed, self.want_trace, self.want_reads = perm_seed, trace, reads

  def __enter__(self):
    install()
    _state["perm_rng"] = random.Random(self.perm_seed) if self.perm_seed is not None else None
    self.trace = _state["trace"] = [] if self.want_trace else None
    self.reads = _state["reads"] = [] if self.want_reads else None
    return self

  def __exit__(self, *a):
    _state["perm_rng"] = None
    _state["trace"] = None
    _state["reads"] = None


def dirty_read_violations(reads):
  """Evaluations that completed although they read a dirty cell."""
  out = []
  stack = []
  for ev in reads:
    if ev[0] == "begin":
      stack.append([ev[1:], []])
    elif ev[0] == "dirty-read":
      if stack:
        stack[-1][1].append(ev[1:])
    elif ev[0] == "abort":
      if stack:
        stack.pop()
    elif ev[0] == "end":
      if stack:
        cell, bad = stack.pop()
        if bad:
          out.append((cell, bad))
  return out


# ----------------------------------------------------------------------------- C18 graph documents

CIRC = 'o["E", "CircularRefError"]'


def graph_columns(k, deps, konst):
  """Table columns for a dependency graph over k formula columns c0..c(k-1) and data column d.
  deps[i] is a list of column indices in 0..k where index k denotes the data column d."""
  cols = [{"id": "d", "type": "Int", "isFormula": False, "formula": ""}]
  for i in range(k):
    terms = ["$c%d" % j if j < k else "$d" for j in deps[i]] + [str(konst[i])]
    cols.append({"id": "c%d" % i, "type": "Any", "isFormula": True, "formula": " + ".join(terms)})
  return cols


def expected_values(k, deps, konst, dval):
  """Independent reference: cells on or depending on a cycle -> CIRC; others by recursion."""
  reach = [set(j for j in deps[i] if j < k) for i in range(k)]
  changed = True
  while changed:
    changed = False
    for i in range(k):
      new = set(reach[i])
      for j in reach[i]:
        new |= reach[j]
      if new != reach[i]:
        reach[i] = new; changed = True
  on_cycle = [i in reach[i] for i in range(k)]
  bad = [on_cycle[i] or any(on_cycle[j] for j in reach[i]) for i in range(k)]
  memo = {}
  def val(i):
    if i == k:
      return dval
    if i not in memo:
      memo[i] = sum(val(j) for j in deps[i]) + konst[i]
    return memo[i]
  return [CIRC if bad[i] else "i%d" % val(i) for i in range(k)], on_cycle, bad


def all_graphs(k):
  """Every assignment of a subset of {c0..c(k-1), d} to each of the k formula columns."""
  subsets = []
  for m in range(1 << (k + 1)):
    subsets.append([j for j in range(k + 1) if m >> j & 1])
  return itertools.product(subsets, repeat=k)
