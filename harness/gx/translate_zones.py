"""Translators: regenerate lean/Generated/*.lean from /repo's current tree.  `python -m gx.translate all`"""
import os
import sys

VERIF = os.path.abspath(os.path.join(os.path.dirname(__file__), "..", ".."))
GEN_DIR = os.path.join(VERIF, "lean", "Generated")


def _write_if_changed(path, text):
  try:
    if open(path).read() == text:
      return False
  except IOError:
    pass
  tmp = path + ".tmp%d" % os.getpid()
  with open(tmp, "w") as f:
    f.write(text)
  os.replace(tmp, path)
  return True


# ----------------------------------------------------------------------------- C34: zone records
ZONE_MODULES = 12


def load_zone_records(raw=None):
  """Reads the repo's CURRENT tzdata (through moment.read_tz_raw_data) and scales it to the integer
  form of lean/GristModel/Zone.lean.  Returns (records, names, problems):
    records  : list of (untils_ms tuple [sentinel dropped], offsets_sec_west tuple), distinct, in
               order of first appearance by sorted zone name
    names    : list of (zone name, index into records), sorted by name
    problems : list of strings; non-empty means the integer model does NOT cover the data
  """
  from datetime import timedelta
  if raw is None:
    import moment
    raw = moment.read_tz_raw_data()
  problems = []
  records, rec_index, names = [], {}, []
  for item in sorted(raw, key=lambda x: x[0]):
    name, _abbrs, offsets, untils = item[0], item[1], item[2], item[3]
    body = list(untils[:-1])          # Zone.__init__ drops the last entry whatever it is
    if len(untils) == 0:
      problems.append("%s: empty untils" % name)
      continue
    if untils[-1] != float("inf"):
      problems.append("%s: last until is %r, not the +inf sentinel" % (name, untils[-1]))
    us, bad = [], False
    for u in body:
      if isinstance(u, bool) or not isinstance(u, (int, float)) or u != u or u in (float("inf"), float("-inf")) \
         or int(u) != u or abs(u) >= 2 ** 53:
        problems.append("%s: until %r is not an integral number of ms" % (name, u)); bad = True; break
      us.append(int(u))
    os_ = []
    for o in offsets:
      if bad:
        break
      if isinstance(o, bool) or not isinstance(o, (int, float)) or o != o or abs(o) > 1e6:
        problems.append("%s: offset %r is not a number" % (name, o)); bad = True; break
      s = int(round(o * 60))
      if abs(o * 60 - s) > 1e-6:
        problems.append("%s: offset %r min is not a whole number of seconds" % (name, o)); bad = True; break
      if timedelta(minutes=-o) != timedelta(seconds=-s):
        problems.append("%s: timedelta(minutes=%r) != %d s" % (name, -o, -s)); bad = True; break
      os_.append(s)
    if bad:
      continue
    # the float expressions of Zone.__init__ / _index_dt must be exact integers equal to the model's
    for j, (u, o) in enumerate(zip(body, offsets)):
      if u - o * 60000 != us[j] - os_[j] * 1000:
        problems.append("%s: offset_untils[%d] float value %r != %d" % (name, j, u - o * 60000, us[j] - os_[j] * 1000))
        bad = True; break
      if j + 1 < len(offsets) and u - offsets[j + 1] * 60000 != us[j] - os_[j + 1] * 1000:
        problems.append("%s: ambiguity bound [%d] float value differs from integer value" % (name, j))
        bad = True; break
    if bad:
      continue
    key = (tuple(us), tuple(os_))
    if key not in rec_index:
      rec_index[key] = len(records)
      records.append(key)
    names.append((name, rec_index[key]))
  return records, names, problems


def zone_wf_py(us, os_):
  """Python twin of Grist.Zone.zoneWFb (for reporting which record fails, never as evidence)."""
  n = len(us)
  if len(os_) != n + 1:
    return "len(offsets) != len(untils)+1"
  for j in range(n - 1):
    if not us[j] < us[j + 1]:
      return "untils not increasing at %d" % j
    if not us[j] - os_[j] * 1000 < us[j + 1] - os_[j + 1] * 1000:
      return "offset_untils not increasing at %d" % j
    if not us[j] - os_[j] * 1000 <= us[j + 1] - os_[j + 2] * 1000:
      return "local end of period %d after local start of period %d" % (j, j + 2)
    if not us[j] - os_[j + 2] * 1000 <= us[j + 1] - os_[j + 1] * 1000:
      return "period %d shorter than the forward jump after it" % (j + 1)
  return None


def _ilit(x):
  # constructor form: no type-class search per literal (5x faster elaboration than `-123`)
  return ".ofNat %d" % x if x >= 0 else ".negSucc %d" % (-x - 1)


def _lstr(n):
  return n.replace("\\", "\\\\").replace('"', '\\"')


def _nlist(xs):
  return "[" + ", ".join(str(x) for x in xs) + "]"


def _ilist(xs):
  return "[" + ", ".join(_ilit(x) for x in xs) + "]"


def gen_zones(raw=None):
  """Writes lean/Generated/Zones00..NN.lean + ZonesAll.lean from the current tzdata.
  Returns dict(records=, names=, problems=, transitions=, changed=)."""
  records, names, problems = load_zone_records(raw)
  os.makedirs(GEN_DIR, exist_ok=True)
  # Stable layout: a record is named after the first (sorted) zone name that uses it and goes to the module
  # chosen by a hash of that name, so that a change of one zone's data rebuilds one module only.
  import re, zlib
  first_name = {}
  for n, k in names:
    first_name.setdefault(k, n)
  ident, used = {}, set()
  for k in range(len(records)):
    base = re.sub(r"[^A-Za-z0-9]", "_", first_name[k].replace("+", "_plus_").replace("-", "_minus_"))
    cand, i = base, 1
    while cand in used:
      i += 1
      cand = "%s_%d" % (base, i)
    used.add(cand)
    ident[k] = cand
  bins = [[] for _ in range(ZONE_MODULES)]
  for k in range(len(records)):
    bins[zlib.crc32(first_name[k].encode()) % ZONE_MODULES].append(k)
  changed = 0
  mods = []
  for b, ks in enumerate(bins):
    ks = sorted(ks, key=lambda k: first_name[k])
    mod = "Zones%02d" % b
    mods.append((mod, ks))
    out = ["-- GENERATED by harness/gx/translate.py (gen_zones) from sandbox/grist/tzdata.data. Do not edit.",
           "import GristModel.Zone", "namespace Grist.Zone.Gen", ""]
    for k in ks:
      us, os_ = records[k]
      out.append("def zone_%s : Zone := { untils := %s, offsets := %s }" % (ident[k], _ilist(us), _ilist(os_)))
      out.append("theorem zone_%s_wf : zoneWFb zone_%s = true := by decide +kernel" % (ident[k], ident[k]))
    out.append("")
    out.append("def zones%02d : List (String × Zone) := [%s]"
               % (b, ", ".join('("%s", zone_%s)' % (_lstr(first_name[k]), ident[k]) for k in ks)))
    term = "List.forall_mem_nil _"
    # ∀ p ∈ (a :: l), P p  from  ⟨P a, ∀ p ∈ l, P p⟩
    out.append("theorem zones%02d_wf : ∀ p ∈ zones%02d, zoneWFb p.2 = true := by" % (b, b))
    out.append("  unfold zones%02d" % b)
    out.append("  intro p hp")
    out.append("  simp only [List.mem_cons, List.not_mem_nil, or_false] at hp")
    if ks:
      out.append("  rcases hp with %s" % " | ".join(["rfl"] * len(ks)))
      for k in ks:
        out.append("  · exact zone_%s_wf" % ident[k])
    else:
      out.append("  exact absurd hp (by simp)")
    out.append("")
    out.append("end Grist.Zone.Gen")
    changed += _write_if_changed(os.path.join(GEN_DIR, mod + ".lean"), "\n".join(out) + "\n")
  # aggregator
  out = ["-- GENERATED by harness/gx/translate.py (gen_zones). Do not edit."]
  for mod, _ in mods:
    out.append("import Generated.%s" % mod)
  out += ["namespace Grist.Zone.Gen", "",
          "/-- Every distinct bundled zone record, tagged with the first zone name that uses it. -/",
          "def allZones : List (String × Zone) := %s" % (" ++ (".join("zones%02d" % b for b in range(ZONE_MODULES)) + ")" * (ZONE_MODULES - 1)),
          "",
          "theorem allZones_wfb : ∀ p ∈ allZones, zoneWFb p.2 = true := by",
          "  intro p hp",
          "  simp only [allZones, List.mem_append] at hp",
          "  rcases hp with %s" % " | ".join(["hp"] * ZONE_MODULES)]
  for b in range(ZONE_MODULES):
    out.append("  · exact zones%02d_wf p hp" % b)
  out += ["",
          "/-! Bundled zone name -> record (%d names, %d distinct records, %d transitions). -/"
          % (len(names), len(records), sum(len(r[0]) for r in records))]
  CH = 50
  nchunks = max(1, (len(names) + CH - 1) // CH)
  for c in range(nchunks):
    chunk = names[c * CH:(c + 1) * CH]
    out.append("def names%02d : List (String × Zone) := [" % c)
    for i in range(0, len(chunk), 4):
      out.append("  " + ", ".join('("%s", zone_%s)' % (n.replace("\\", "\\\\").replace('"', '\\"'), ident[k])
                                  for n, k in chunk[i:i + 4]) + ("," if i + 4 < len(chunk) else ""))
    out.append("]")
    out.append("theorem names%02d_wf : ∀ q ∈ names%02d, zoneWFb q.2 = true := by" % (c, c))
    out.append("  unfold names%02d" % c)
    out.append("  intro q hq")
    out.append("  simp only [List.mem_cons, List.not_mem_nil, or_false] at hq")
    if chunk:
      out.append("  rcases hq with %s" % " | ".join(["rfl"] * len(chunk)))
      for n, k in chunk:
        out.append("  · exact zone_%s_wf" % ident[k])
    else:
      out.append("  exact absurd hq (by simp)")
    out.append("")
  out += ["/-- Every bundled zone name with its record. -/",
          "def zoneTable : List (String × Zone) := %s"
          % (" ++ (".join("names%02d" % c for c in range(nchunks)) + ")" * (nchunks - 1)),
          "",
          "theorem zoneTable_wfb : ∀ q ∈ zoneTable, zoneWFb q.2 = true := by",
          "  intro q hq",
          "  simp only [zoneTable, List.mem_append] at hq"]
  if nchunks > 1:
    out.append("  rcases hq with %s" % " | ".join(["hq"] * nchunks))
    for c in range(nchunks):
      out.append("  · exact names%02d_wf q hq" % c)
  else:
    out.append("  exact names00_wf q hq")
  out += ["",
          "def numNames : Nat := %d" % len(names),
          "def numRecords : Nat := %d" % len(records),
          "def numProblems : Nat := %d  -- records the translator could not express in the integer model" % len(problems),
          "", "end Grist.Zone.Gen"]
  changed += _write_if_changed(os.path.join(GEN_DIR, "ZonesAll.lean"), "\n".join(out) + "\n")
  # stale modules from an earlier layout
  keep = set(m + ".lean" for m, _ in mods) | {"ZonesAll.lean"}
  for f in os.listdir(GEN_DIR):
    if f.startswith("Zones") and f.endswith(".lean") and f not in keep:
      os.unlink(os.path.join(GEN_DIR, f)); changed += 1
  return dict(records=records, names=names, problems=problems,
              transitions=sum(len(r[0]) for r in records), changed=changed,
              modules=[m for m, _ in mods] + ["ZonesAll"])


