"""C25 translator: lean/Generated/Migrations.lean from the current tree (see gen_migrations)."""
import os
import sys

from gx.translate import _write_if_changed, _lean_str, GEN_DIR, VERIF

def _mig_modules():
  """The repo modules, imported from the CURRENT working tree (GRIST_REPO or /repo)."""
  import logging
  repo = os.environ.get("GRIST_REPO", "/repo")
  for p in (os.path.join(repo, "sandbox", "grist"), os.path.join(VERIF, "harness", "shim")):
    if p not in sys.path:
      sys.path.insert(0, p)
  logging.disable(logging.CRITICAL)
  import actions, schema, migrations, table_data_set, test_migrations   # noqa: E401
  return actions, schema, migrations, table_data_set, test_migrations


def mig_doc_at(version):
  """An (empty-data) document of schema version `version`, built with the repo's own machinery:
  `test_migrations.schema_version0()` (the historical version-0 schema, one _grist_DocInfo record)
  followed by the registered migration functions 1..version, each run against (and applying its
  actions to) a real `TableDataSet`; finally schemaVersion is set.  The records that migrations
  themselves insert (ACL defaults of m14, timezone of m18, documentSettings of m23) stay."""
  actions, schema, migrations, table_data_set, test_migrations = _mig_modules()
  td = table_data_set.TableDataSet()
  td.apply_doc_actions(test_migrations.schema_version0())
  for k in range(1, version + 1):
    migrations.all_migrations.get(k, migrations.noop_migration)(td)
  td.apply_doc_action(actions.UpdateRecord('_grist_DocInfo', 1, {'schemaVersion': version}))
  return td


def mig_is_schema_action(a):
  actions = _mig_modules()[0]
  return type(a).__name__ in actions.schema_actions


def mig_is_meta(table_id):
  return table_id.startswith("_grist_")


def mig_targets(a):
  n = type(a).__name__
  if n == "RenameTable":
    return [a.old_table_id, a.new_table_id]
  return [a.table_id]


def mig_meta_schema_actions(acts):
  """The subsequence of schema actions whose target tables are all metadata tables."""
  return [a for a in acts if mig_is_schema_action(a) and all(mig_is_meta(t) for t in mig_targets(a))]


def _lean_bool(b):
  return "true" if b else "false"


def _lean_colinfo(ci, what):
  # the modelled keys of a col_info dict; anything else would make the abstraction unsound
  extra = set(ci) - {"id", "type", "isFormula", "formula", "reverseColId"}
  if extra or not isinstance(ci.get("type"), str) or not isinstance(ci.get("formula"), str) \
     or not isinstance(ci.get("isFormula"), bool):
    raise ValueError("col_info outside the modelled shape in %s: %r" % (what, ci))
  rev = ci.get("reverseColId")
  return "⟨%s, %s, %s, %s⟩" % (_lean_str(ci["type"]), _lean_bool(ci["isFormula"]),
                                 _lean_str(ci["formula"]),
                                 "none" if rev is None else "some " + _lean_str(rev))


def _lean_sdoc(sch, indent="  "):
  """`_schema`-shaped dict {table: {col: col_info}} -> SDoc literal (dict order kept)."""
  rows = []
  for t, cols in sch.items():
    for c, ci in cols.items():
      if ci.get("id") != c:
        raise ValueError("col_info['id'] != column key in %s.%s: %r" % (t, c, ci))
    rows.append(indent + "(%s, [%s])" % (
      _lean_str(t), ", ".join("(%s, %s)" % (_lean_str(c), _lean_colinfo(ci, t + "." + c))
                              for c, ci in cols.items())))
  return "[\n" + ",\n".join(rows) + "\n" + indent[:-2] + "]"


def _lean_val(v):
  if v is None:
    return ".null"
  if isinstance(v, bool):
    return ".bool " + _lean_bool(v)
  if isinstance(v, int):
    return ".int (%d)" % v
  if isinstance(v, str):
    return ".str " + _lean_str(v)
  raise ValueError("value outside the generated vocabulary: %r" % (v,))


def _lean_rowid(r):
  return "none" if r is None else "some (%d)" % r


def _lean_action(a):
  n = type(a).__name__
  if n == "AddColumn":
    if a.col_info.get("id") != a.col_id:
      raise ValueError("AddColumn col_info['id'] != col_id: %r" % (a,))
    return ".addColumn %s %s %s" % (_lean_str(a.table_id), _lean_str(a.col_id), _lean_colinfo(a.col_info, n))
  if n == "RemoveColumn":
    return ".removeColumn %s %s" % (_lean_str(a.table_id), _lean_str(a.col_id))
  if n == "RenameColumn":
    return ".renameColumn %s %s %s" % (_lean_str(a.table_id), _lean_str(a.old_col_id), _lean_str(a.new_col_id))
  if n == "ModifyColumn":
    ci = a.col_info
    if set(ci) - {"type", "isFormula", "formula"}:
      raise ValueError("ModifyColumn keys outside the modelled shape: %r" % (a,))
    return ".modifyColumn %s %s { type := %s, isFormula := %s, formula := %s }" % (
      _lean_str(a.table_id), _lean_str(a.col_id),
      ("some " + _lean_str(ci["type"])) if "type" in ci else "none",
      ("some " + _lean_bool(ci["isFormula"])) if "isFormula" in ci else "none",
      ("some " + _lean_str(ci["formula"])) if "formula" in ci else "none")
  if n == "AddTable":
    return ".addTable %s [%s]" % (_lean_str(a.table_id), ", ".join(
      "(%s, %s)" % (_lean_str(c["id"]), _lean_colinfo(c, n)) for c in a.columns))
  if n == "RemoveTable":
    return ".removeTable %s" % _lean_str(a.table_id)
  if n == "RenameTable":
    return ".renameTable %s %s" % (_lean_str(a.old_table_id), _lean_str(a.new_table_id))
  if n in ("UpdateRecord", "AddRecord"):
    ctor = ".bulkUpdate" if n == "UpdateRecord" else ".bulkAdd"
    return "%s %s [%s] [%s]" % (ctor, _lean_str(a.table_id), _lean_rowid(a.row_id), ", ".join(
      "(%s, [%s])" % (_lean_str(k), _lean_val(v)) for k, v in a.columns.items()))
  raise ValueError("action outside the generated vocabulary: %r" % (a,))


def mig_extract():
  """Run the REAL create_migrations on the empty document of every version 0..SCHEMA_VERSION.
  Returns dict(version=SCHEMA_VERSION, current=<current schema dict>, start=[meta schema of the
  version-v doc], acts=[all emitted actions], schema_acts=[meta schema-action subsequence])."""
  actions, schema, migrations, table_data_set, test_migrations = _mig_modules()
  cur = {a.table_id: {c['id']: dict(c) for c in a.columns} for a in schema.schema_create_actions()}
  out = {"version": schema.SCHEMA_VERSION, "current": cur, "start": [], "acts": [], "schema_acts": []}
  for v in range(0, schema.SCHEMA_VERSION + 1):
    td = mig_doc_at(v)
    start = {t: {c: dict(ci) for c, ci in cols.items()} for t, cols in td.get_schema().items()
             if mig_is_meta(t)}
    acts = migrations.create_migrations(td.all_tables)
    out["start"].append(start)
    out["acts"].append(acts)
    out["schema_acts"].append(mig_meta_schema_actions(acts))
  return out


def gen_migrations():
  """C25: lean/Generated/Migrations.lean from the current tree: for every version v the metadata
  schema of the version-v document, the metadata schema actions `create_migrations` emits for it
  (empty data), the current schema (`schema_create_actions()`), and the whole list emitted for an
  already-current document."""
  ex = mig_extract()
  _write_if_changed(os.path.join(GEN_DIR, "Migrations.lean"), render_migrations(ex))
  return ex


def render_migrations(ex):
  """The Lean source for an extraction (raises ValueError if something is outside the modelled shape)."""
  V = ex["version"]
  L = [
    "/- GENERATED by harness/gx/translate.py gen_migrations() from the real create_migrations -- do not edit. -/",
    "import GristModel.Lenient",
    "namespace Grist.Generated.Migrations",
    "open Grist.Doc",
    "",
    "/-- schema.SCHEMA_VERSION -/",
    "def schemaVersion : Nat := %d" % V,
    "",
    "/-- {a.table_id: {c['id']: c for c in a.columns} for a in schema.schema_create_actions()} -/",
    "def currentSchema : SDoc := " + _lean_sdoc(ex["current"]),
    "",
  ]
  for v in range(V + 1):
    L.append("/-- `_schema` (metadata tables) of the version-%d document -/" % v)
    L.append("def start%d : SDoc := %s" % (v, _lean_sdoc(ex["start"][v])))
    L.append("")
    L.append("/-- metadata schema actions emitted by create_migrations for the version-%d document -/" % v)
    L.append("def acts%d : List LAction := [\n%s\n]" % (
      v, ",\n".join("  " + _lean_action(a) for a in ex["schema_acts"][v])))
    L.append("")
  L.append("def startSchemas : List SDoc := [%s]" % ", ".join("start%d" % v for v in range(V + 1)))
  L.append("def schemaActs : List (List LAction) := [%s]" % ", ".join("acts%d" % v for v in range(V + 1)))
  L.append("")
  L.append("/-- the WHOLE list create_migrations emits for the (empty) document of the current version -/")
  L.append("def currentActs : List LAction := [\n%s\n]" % ",\n".join(
    "  " + _lean_action(a) for a in ex["acts"][V]))
  L.append("")
  L.append("end Grist.Generated.Migrations")
  L.append("")
  return "\n".join(L)


