"""Child process of the C30 check: replays histories given on stdin (JSON) on fresh engines under
this process's PYTHONHASHSEED and prints, per bundle, the reply and a digest of all tables."""
import hashlib
import json
import sys

from gx import common


def main():
  common.setup_repo_path()
  from gx import engine_driver as ed
  hists = json.load(sys.stdin)
  out = []
  for hist in hists:
    doc = ed.Doc()
    res_list = []
    for b in hist:
      r = doc.apply(b, record=False)
      reply = [r.ok, (r.error[0] if r.error else None), r.raw_stored, r.raw_undo, r.direct, r.ret]
      rep = json.dumps(reply, sort_keys=True, default=repr)
      snap = json.dumps(doc.snapshot(), sort_keys=True)
      res_list.append([hashlib.sha1(rep.encode()).hexdigest(), hashlib.sha1(snap.encode()).hexdigest()])
    out.append(res_list)
  json.dump(out, sys.stdout)


if __name__ == "__main__":
  main()
