"""Translators: regenerate lean/Generated/*.lean from /repo's current tree.  `python -m gx.translate all`"""
import sys
def main(argv):
  return 0
if __name__ == "__main__":
  sys.exit(main(sys.argv[1:]))
