"""
Seeded generator of documents and histories of user-action bundles over the public vocabulary.

Every choice derives from the `random.Random` passed in.  The generator looks at the live
document (read-only, through metadata) before producing each bundle, so that actions are
mostly valid; a separate malformed stream produces invalid requests on purpose.

`profile` (dict of weights) lets a property check weight the mix towards what it needs.
"""
import json

TYPES_DATA = ["Int", "Numeric", "Text", "Bool", "Choice", "ChoiceList", "Date", "Any"]
CHOICES = ["a", "b", "c", "d"]
# incl. strings that LOOK like JSON lists: list-typed columns parse such strings when they are set
TEXTS = ["", "x", "y", "foo", "Bar", "a", "b", "12", "3.5", "é", '["a", "b"]', "[1, 2]"]

DEFAULT_PROFILE = {
  "add_record": 14, "bulk_add": 6, "update_record": 14, "bulk_update": 6, "remove_record": 7,
  "bulk_remove": 3, "replace_data": 1,
  "add_column": 5, "add_formula_column": 5, "remove_column": 3, "rename_column": 4,
  "modify_type": 5, "modify_formula": 3, "to_formula": 2.5, "to_data": 1, "label_change": 1,
  "add_table": 2, "remove_table": 1, "rename_table": 2, "duplicate_table": 0.5,
  "summary": 2, "update_summary": 1, "detach_summary": 0.3,
  "add_ref_column": 2, "reverse_column": 1,
  "rename_choices": 1, "display_formula": 0.7, "add_rule": 0.7, "remove_view_stuff": 1,
  "upsert": 2, "trigger_column": 0, "trigger_config": 0,
  "undo_earlier": 2, "redo_stored": 0,
  "malformed": 4,
  "temp_ids": 2,
  "meta_raw": 0,
  # reference-heavy kinds (C10 / C11); weight 0 unless a check asks for them
  "ref_bulk_update": 0, "ref_pair_update": 0, "ref_both_sides": 0, "add_dangling_id": 0,
  "remove_referenced": 0, "remove_ref_side": 0, "unlink": 0,
  "cyclic_formula": 0,
  "side_effect_formula": 0,
  "ref_into_summary": 0.5, "remove_summary_widget": 0.5,
  "type_change_write": 2,
  "c12_regroup": 0, "c12_empty_group": 0, "c12_add_to_groups": 0,     # summary-table edits (C12)
  "c12_error_formula": 0, "c12_summary_any": 0, "c12_retype_groupby": 0, "c12_rename_groupby": 0,
  "unhashable_key": 1.5,
  "agg_unsorted": 1,
  "lookup_chain": 1,
  "then_fail": 3,
  "hide_field": 0.5,
  "retype_empty": 1,
  "replace_with_trigger": 3,
  "column_cycle": 0.7, "summary_chain": 0.7, "resave_formula": 1.5, "rename_retype": 2.5, "ref_reach_retype": 1, "show_group_field": 0.5, "upsert_formula_key": 2,
  "remove_readd": 2,
  "add_empty_column": 2,
  "stale_undo": 1,
}


class World(object):
  """Read-only view of the live document."""
  def __init__(self, doc):
    self.doc = doc
    self.tables = {}      # tableId -> dict(ref, summarySource, cols: [dict], rows: [ids])
    trecs = doc.meta("_grist_Tables")
    crecs = doc.meta("_grist_Tables_column")
    by_ref = {}
    for t in trecs:
      e = {"ref": t["id"], "tableId": t["tableId"], "summarySource": t.get("summarySourceTable", 0),
           "rawSection": t.get("rawViewSectionRef", 0), "cols": [], "rows": []}
      by_ref[t["id"]] = e
      self.tables[t["tableId"]] = e
    self.cols_by_ref = {}
    for c in sorted(crecs, key=lambda c: (c["parentId"], c["parentPos"] if isinstance(c["parentPos"], (int, float)) else 0)):
      t = by_ref.get(c["parentId"])
      if t is None:
        continue
      ce = {"ref": c["id"], "colId": c["colId"], "type": c["type"], "isFormula": bool(c["isFormula"]),
            "formula": c["formula"], "table": t["tableId"], "recalcWhen": c.get("recalcWhen", 0),
            "summarySourceCol": c.get("summarySourceCol", 0), "reverseCol": c.get("reverseCol", 0),
            "displayCol": c.get("displayCol", 0), "label": c.get("label", "")}
      t["cols"].append(ce)
      self.cols_by_ref[c["id"]] = ce
    for tid, t in self.tables.items():
      if tid in doc.engine.tables:
        t["rows"] = sorted(doc.engine.tables[tid].row_ids)
    self.sections = doc.meta("_grist_Views_section")
    self.views = doc.meta("_grist_Views")
    self.pages = doc.meta("_grist_Pages")
    self.fields = doc.meta("_grist_Views_section_field")
    self.fields = doc.meta("_grist_Views_section_field")

  def user_tables(self, summary=False):
    return [t for t in self.tables.values() if bool(t["summarySource"]) == summary]

  def visible_cols(self, t):
    return [c for c in t["cols"] if c["colId"] != "manualSort" and not c["colId"].startswith("gristHelper_")
            and not c["colId"].startswith("#")]

  def data_cols(self, t):
    # "empty" columns (isFormula with an empty formula) accept data: the engine converts them
    return [c for c in self.visible_cols(t) if not c["isFormula"] or not c["formula"]]

  def formula_cols(self, t):
    return [c for c in self.visible_cols(t) if c["isFormula"] and c["formula"]]


def wchoice(rng, weights):
  items = [(k, w) for k, w in weights.items() if w > 0]
  tot = sum(w for _, w in items)
  x = rng.random() * tot
  for k, w in items:
    x -= w
    if x <= 0:
      return k
  return items[-1][0]


class Gen(object):
  def __init__(self, rng, profile=None, formulas=True):
    self.rng = rng
    self.profile = dict(DEFAULT_PROFILE)
    if profile:
      self.profile.update(profile)
    # options of the reference-heavy generators: probability that a bulk update of a reference
    # column names the same row twice
    self.ref_opts = {"dup_rows": 0.0}
    self.formulas = formulas
    self.n_names = 0
    self.kinds = {}        # distribution of generated action kinds
    self.past = []         # (stored, undo) raw reprs of earlier successful bundles
    self.hostile_names = False
    self.old_undos = []    # undo lists of bundles applied at least 2 bundles ago

  # ------------------------------------------------------------ values
  def value_for(self, w, col, allow_bad=True):
    rng = self.rng
    typ = col["type"]
    base = typ.split(":")[0]
    if allow_bad and rng.random() < 0.06:
      return rng.choice([None, "junk", "", 7, 2.5, True])
    if base == "Int":
      return rng.choice([0, 1, 2, 3, 5, -1, 10, 100, rng.randint(-5, 50)])
    if base == "Numeric":
      return rng.choice([0, 1.5, 2, -3.25, 10.0, 0.1, rng.randint(0, 20), rng.randint(0, 100) / 4.0])
    if base == "Text":
      return rng.choice(TEXTS)
    if base == "Bool":
      return rng.choice([True, False, True, False, 1, 0])
    if base == "Choice":
      return rng.choice(CHOICES + [""])
    if base == "ChoiceList":
      k = rng.choice([0, 1, 1, 2, 3])
      if k == 0:
        return rng.choice([None, ["L"]])
      return ["L"] + rng.sample(CHOICES, k)
    if base == "Date":
      return rng.choice([None, 86400 * rng.randint(0, 20000)])
    if base == "DateTime":
      return rng.choice([None, 86400 * rng.randint(0, 20000) + rng.randint(0, 86399)])
    if base == "Ref":
      tgt = typ.split(":", 1)[1]
      rows = w.tables.get(tgt, {"rows": []})["rows"]
      if rows and rng.random() < 0.85:
        return rng.choice(rows)
      return rng.choice([0, 0, 99])
    if base == "RefList":
      tgt = typ.split(":", 1)[1]
      rows = w.tables.get(tgt, {"rows": []})["rows"]
      k = rng.choice([0, 1, 2, 2, 3])
      if not rows or k == 0:
        return None
      return ["L"] + [rng.choice(rows) for _ in range(k)] if rng.random() < 0.2 else \
             ["L"] + rng.sample(rows, min(k, len(rows)))
    if base == "Any":
      # lists and dicts are legal cell values of an Any column and are NOT hashable (lookup keys!)
      return rng.choice([None, 1, "t", 2.5, True, 1, "t", ["L", 1, "t"], ["L"], ["O", {"a": 1}]])
    if base in ("ManualSortPos", "PositionNumber"):
      return rng.choice([None, 1.5, 2.0, 0.5, float(rng.randint(1, 6))])
    return None

  def new_name(self, kind="col"):
    rng = self.rng
    self.n_names += 1
    if self.hostile_names and rng.random() < 0.3:
      return rng.choice(["a b", "1x", "class", "é té", "A", "a", "x-y", "_u", "for", "ID", "id", "Sum Of", "T 1"])
    if kind == "table":
      return "T%s%d" % (rng.choice(["", "ab", "X"]), self.n_names)
    return "%s%d" % (rng.choice(["c", "col", "v", "N"]), self.n_names)

  # ------------------------------------------------------------ formulas
  def formula_for(self, w, t, avoid=None):
    """A deterministic formula over the current columns of table t (None if nothing sensible)."""
    rng = self.rng
    cols = [c for c in w.visible_cols(t) if c["colId"] != avoid]
    nums = [c for c in cols if c["type"] in ("Int", "Numeric")]
    texts = [c for c in cols if c["type"] in ("Text", "Choice")]
    refs = [c for c in cols if c["type"].startswith("Ref:")]
    reflists = [c for c in cols if c["type"].startswith("RefList:")]
    opts = []
    if nums:
      a = rng.choice(nums)["colId"]
      opts += ["$%s * 2 + 1" % a, "($%s or 0) + 10" % a, "rec.%s - 3" % a, "$%s > 2" % a,
               "'n' + str($%s)" % a, "$id + $%s" % a]
      if len(nums) > 1:
        b = rng.choice(nums)["colId"]
        opts += ["$%s + $%s" % (a, b), "max($%s, $%s)" % (a, b)]
      # lookups in own table and others
      for t2 in w.user_tables():
        n2 = [c for c in w.visible_cols(t2) if c["type"] in ("Int", "Numeric") and not (t2 is t and c["colId"] == avoid)]
        if n2:
          k = rng.choice(n2)["colId"]
          opts += ["len(%s.lookupRecords(%s=$%s))" % (t2["tableId"], k, a),
                   "%s.lookupOne(%s=$%s).id" % (t2["tableId"], k, a),
                   "sum(r.%s for r in %s.lookupRecords(%s=$%s))" % (k, t2["tableId"], k, a),
                   "[r.id for r in %s.lookupRecords(%s=$%s, order_by='-%s')]" % (t2["tableId"], k, a, k)]
    if texts:
      s = rng.choice(texts)["colId"]
      opts += ["$%s.upper()" % s, "len($%s)" % s, "$%s + '!'" % s, "$%s == 'x'" % s]
      for t2 in w.user_tables():
        s2 = [c for c in w.visible_cols(t2) if c["type"] in ("Text", "Choice") and not (t2 is t and c["colId"] == avoid)]
        if s2:
          k = rng.choice(s2)["colId"]
          opts += ["len(%s.lookupRecords(%s=$%s))" % (t2["tableId"], k, s)]
    for r in refs:
      tgt = w.tables.get(r["type"].split(":", 1)[1])
      if tgt:
        tc = [c for c in w.visible_cols(tgt) if not (tgt is t and c["colId"] == avoid)]
        if tc:
          opts += ["$%s.%s" % (r["colId"], rng.choice(tc)["colId"])]
        opts += ["$%s.id" % r["colId"]]
    for r in reflists:
      tgt = w.tables.get(r["type"].split(":", 1)[1])
      opts += ["len($%s)" % r["colId"]]
      if tgt:
        tn = [c for c in w.visible_cols(tgt) if c["type"] in ("Int", "Numeric") and not (tgt is t and c["colId"] == avoid)]
        if tn:
          opts += ["sum(x.%s or 0 for x in $%s)" % (rng.choice(tn)["colId"], r["colId"])]
    if t["summarySource"]:
      opts += ["len($group)", "[r.id for r in $group]"]
      src = [tt for tt in w.tables.values() if tt["ref"] == t["summarySource"]]
      if src:
        sn = [c for c in w.visible_cols(src[0]) if c["type"] in ("Int", "Numeric")]
        if sn:
          opts += ["SUM($group.%s)" % rng.choice(sn)["colId"]]
    # chains through FORMULA columns: lookups keyed on formula columns, aggregates of formula
    # columns over non-ascending record sets (RefList order, order_by='-col')
    fcols_here = [c for c in cols if c["isFormula"] and c["formula"] and c["colId"] != "group"]
    for t2 in w.user_tables():
      c2 = [c for c in w.visible_cols(t2) if not (t2 is t and c["colId"] == avoid) and c["colId"] != "group"]
      f2 = [c for c in c2 if c["isFormula"] and c["formula"]]
      if cols and c2 and f2:
        a, k, v = rng.choice(cols)["colId"], rng.choice(f2)["colId"], rng.choice(c2)["colId"]
        opts += ["%s.lookupOne(%s=$%s).%s" % (t2["tableId"], k, a, v),
                 "len(%s.lookupRecords(%s=$%s))" % (t2["tableId"], k, a)]
      if cols and c2 and f2:
        a, k, v, o = rng.choice(cols)["colId"], rng.choice(c2)["colId"], rng.choice(f2)["colId"], rng.choice(c2)["colId"]
        opts += ["sum((r.%s if isinstance(r.%s, (int, float)) else 0) for r in %s.lookupRecords(%s=$%s, order_by='-%s'))"
                 % (v, v, t2["tableId"], k, a, o)]
    for r in reflists:
      tgt = w.tables.get(r["type"].split(":", 1)[1])
      if tgt:
        tf = [c for c in w.visible_cols(tgt) if c["isFormula"] and c["formula"] and not (tgt is t and c["colId"] == avoid)]
        if tf:
          v = rng.choice(tf)["colId"]
          opts += ["sum((x.%s if isinstance(x.%s, (int, float)) else 0) for x in $%s)" % (v, v, r["colId"])] * 2
    for r in refs:
      tgt = w.tables.get(r["type"].split(":", 1)[1])
      if tgt:
        tf = [c for c in w.visible_cols(tgt) if c["isFormula"] and c["formula"] and not (tgt is t and c["colId"] == avoid)]
        if tf:
          opts += ["$%s.%s" % (r["colId"], rng.choice(tf)["colId"])]
    if fcols_here:
      # a formula that reads ANOTHER formula column only for some rows (so its own column's recalculation can be
      # suspended part-way by a dirty read and resumed later)
      g = rng.choice(fcols_here)["colId"]
      base = ("$%s" % rng.choice(nums)["colId"]) if nums else "$id"
      opts += ["$%s if $id %% 2 == 0 else %s" % (g, base), "$%s if $id > 1 else %s" % (g, base),
               "%s if $id <= 1 else $%s" % (base, g), "$%s if %s else %s" % (g, base, base)] * 2
    opts += ["$id * 3", "1 + 1", "'k'", "None"]
    if rng.random() < 0.5:
      # a column that does not exist (yet): AttributeError now; a later rename / add under exactly this id
      # must bring the formula to life
      opts += [rng.choice(["$zz1", "$zz2 * 2", "rec.zz1", "len(str($zz2))"])]
      ot = [t2 for t2 in w.user_tables() if t2 is not t]
      if ot:
        opts += ["%s.lookupOne().zz1" % rng.choice(ot)["tableId"]]
    if rng.random() < 0.04:
      opts = ["$nosuchcol + 1", "1/0", "foo(", "import os"]      # invalid / erroring formulas
    return rng.choice(opts)

  # ------------------------------------------------------------ initial document
  def initial_bundles(self, n_tables=None):
    """Bundles creating 1-3 tables with typed columns (no formulas yet: they are added by history
    actions that can see the columns)."""
    rng = self.rng
    out = []
    n_tables = n_tables or rng.choice([1, 2, 2, 3])
    names = []
    for i in range(n_tables):
      name = "T%d" % (i + 1)
      names.append(name)
      cols = []
      for j in range(rng.randint(2, 4)):
        typ = rng.choice(TYPES_DATA[:6] if j < 2 else TYPES_DATA)
        cols.append({"id": "%s%d" % ("abcdefgh"[j], i + 1), "type": typ, "isFormula": False, "formula": ""})
      out.append([["AddTable", name, cols]])
    return out

  # ------------------------------------------------------------ one bundle
  def bundle(self, doc):
    rng = self.rng
    w = World(doc)
    n = rng.choice([1, 1, 1, 2, 2, 3])
    uas = []
    kinds = []
    for _ in range(n):
      for _try in range(6):
        kind = wchoice(rng, self.profile)
        ua = getattr(self, "g_" + kind)(w)
        if ua is not None:
          if isinstance(ua, tuple):
            uas.extend(ua[0])
          else:
            uas.append(ua)
          kinds.append(kind)
          self.kinds[kind] = self.kinds.get(kind, 0) + 1
          break
      # schema-changing actions invalidate `w`; stop composing after one of them
      if kinds and kinds[-1] not in ("add_record", "bulk_add", "update_record", "bulk_update",
                                     "remove_record", "bulk_remove", "upsert", "temp_ids", "malformed",
                                     "ref_bulk_update", "ref_pair_update", "ref_both_sides",
                                     "add_dangling_id", "remove_referenced",
                                     "c12_regroup", "c12_empty_group", "c12_add_to_groups",
                                     # these leave tables, columns and rows as `w` knows them
                                     "modify_type", "modify_formula", "label_change", "rename_choices"):
        break
    return uas, kinds

  def _table(self, w, need_rows=False, summary=False, allow_summary=False):
    ts = [t for t in w.tables.values() if (allow_summary or bool(t["summarySource"]) == summary)]
    if need_rows:
      ts = [t for t in ts if t["rows"]]
    return self.rng.choice(ts) if ts else None

  def _row_values(self, w, t, p_each=0.8):
    vals = {}
    for c in w.data_cols(t):
      if self.rng.random() < p_each:
        vals[c["colId"]] = self.value_for(w, c)
    return vals

  def g_add_record(self, w):
    t = self._table(w)
    if not t:
      return None
    rid = self.rng.choice([None, None, None, None, max(t["rows"] + [0]) + self.rng.randint(1, 3)])
    vals = self._row_values(w, t)
    if self.rng.random() < 0.15:
      vals["manualSort"] = self.rng.choice([0.5, 1.5, 2.0, float(len(t["rows"]))])
    return ["AddRecord", t["tableId"], rid, vals]

  def g_bulk_add(self, w):
    t = self._table(w)
    if not t:
      return None
    k = self.rng.randint(2, 4)
    cols = [c for c in w.data_cols(t) if self.rng.random() < 0.8]
    return ["BulkAddRecord", t["tableId"], [None] * k,
            {c["colId"]: [self.value_for(w, c) for _ in range(k)] for c in cols}]

  def g_update_record(self, w):
    t = self._table(w, need_rows=True)
    if not t or not w.data_cols(t):
      return None
    cols = self.rng.sample(w.data_cols(t), self.rng.randint(1, min(2, len(w.data_cols(t)))))
    return ["UpdateRecord", t["tableId"], self.rng.choice(t["rows"]),
            {c["colId"]: self.value_for(w, c) for c in cols}]

  def g_bulk_update(self, w):
    t = self._table(w, need_rows=True)
    if not t or not w.data_cols(t) or len(t["rows"]) < 2:
      return None
    rows = self.rng.sample(t["rows"], self.rng.randint(2, min(4, len(t["rows"]))))
    cols = self.rng.sample(w.data_cols(t), self.rng.randint(1, min(2, len(w.data_cols(t)))))
    return ["BulkUpdateRecord", t["tableId"], rows,
            {c["colId"]: [self.value_for(w, c) for _ in rows] for c in cols}]

  def g_remove_record(self, w):
    t = self._table(w, need_rows=True)
    if not t:
      return None
    return ["RemoveRecord", t["tableId"], self.rng.choice(t["rows"])]

  def g_bulk_remove(self, w):
    t = self._table(w, need_rows=True)
    if not t or len(t["rows"]) < 2:
      return None
    return ["BulkRemoveRecord", t["tableId"], self.rng.sample(t["rows"], self.rng.randint(2, min(3, len(t["rows"]))))]

  def g_replace_data(self, w):
    t = self._table(w)
    if not t:
      return None
    k = self.rng.randint(0, 3)
    ids = list(range(1, k + 1))
    cols = w.data_cols(t)
    return ["ReplaceTableData", t["tableId"], ids,
            {c["colId"]: [self.value_for(w, c) for _ in ids] for c in cols}]

  def g_replace_with_trigger(self, w):
    """ReplaceTableData on a table that has a data column with a trigger (default-value) formula, NOT supplying
    that column: the formula fills it for every new row, also for rows whose ids existed before.  The formula
    depends on the row id only, so recalculating it is always harmless."""
    rng = self.rng
    t = self._table(w)
    if not t or not self.formulas:
      return None
    trig = [c for c in w.visible_cols(t) if not c["isFormula"] and c["formula"] and "$id" in c["formula"]]
    add = None
    if not trig:
      f = rng.choice(["'K%s' % $id", "$id * 10", "[$id, 'x']"])
      add = ["AddColumn", t["tableId"], self.new_name(), {"type": rng.choice(["Any", "Text", "Int"]), "isFormula": False,
                                                          "formula": f, "recalcWhen": 0}]
      if rng.random() < 0.3:
        return add
    old = list(t["rows"])
    k = rng.randint(1, 4)
    ids = rng.choice([list(range(1, k + 1)), (old[:2] + [max(old + [0]) + 1 + i for i in range(k)])[:k + 1],
                      [max(old + [0]) + 1 + i for i in range(k)]])
    cols = [c for c in w.data_cols(t) if c not in trig or rng.random() < 0.15]
    rep = ["ReplaceTableData", t["tableId"], ids, {c["colId"]: [self.value_for(w, c) for _ in ids] for c in cols}]
    return ([add, rep],) if add else rep

  def g_add_column(self, w):
    t = self._table(w)
    if not t:
      return None
    typ = self.rng.choice(TYPES_DATA)
    return ["AddColumn", t["tableId"], self.new_name(), {"type": typ, "isFormula": False}]

  def g_add_empty_column(self, w):
    """An 'empty' column (formula column with empty formula), possibly already typed: the first data
    entered converts it to a data column."""
    t = self._table(w)
    if not t:
      return None
    info = {}
    if self.rng.random() < 0.6:
      info["type"] = self.rng.choice(["Text", "Numeric", "Int", "Date", "Choice", "Any"])
    return ["AddColumn", t["tableId"], self.new_name(), info]

  def g_add_ref_column(self, w):
    t = self._table(w)
    tgt = self._table(w)
    if not t or not tgt:
      return None
    kind = self.rng.choice(["Ref", "Ref", "RefList"])
    info = {"type": "%s:%s" % (kind, tgt["tableId"]), "isFormula": False}
    if self.formulas and self.rng.random() < 0.3:
      # a data column with a trigger (default-value) formula: has_formula() but not is_formula()
      info["formula"] = self.rng.choice(["None", "%s.lookupOne()" % tgt["tableId"]] if kind == "Ref" else
                                        ["None", "%s.lookupRecords()" % tgt["tableId"]])
      info["recalcWhen"] = 0
    return ["AddColumn", t["tableId"], self.new_name(), info]

  def g_add_formula_column(self, w):
    if not self.formulas:
      return None
    t = self._table(w, allow_summary=True)
    if not t:
      return None
    f = self.formula_for(w, t)
    return ["AddColumn", t["tableId"], self.new_name(), {"type": "Any", "isFormula": True, "formula": f}]

  def g_remove_column(self, w):
    t = self._table(w, allow_summary=True)
    if not t:
      return None
    cols = [c for c in w.visible_cols(t) if not c["summarySourceCol"] and c["colId"] != "group"]
    if len(cols) < 2:
      return None
    return ["RemoveColumn", t["tableId"], self.rng.choice(cols)["colId"]]

  def g_rename_column(self, w):
    t = self._table(w, allow_summary=True)
    if not t:
      return None
    cols = [c for c in w.visible_cols(t) if c["colId"] != "group"]
    if not cols:
      return None
    c = self.rng.choice(cols)
    new = self.new_name()
    if self.rng.random() < 0.15 and len(cols) > 1:
      new = self.rng.choice(cols)["colId"]        # collides: must be disambiguated
    elif self.rng.random() < 0.15:
      new = self.rng.choice(["zz1", "zz2"])       # ids that formulas may already mention (see formula_for)
    return ["RenameColumn", t["tableId"], c["colId"], new]

  def g_label_change(self, w):
    t = self._table(w)
    if not t or not w.visible_cols(t):
      return None
    c = self.rng.choice(w.visible_cols(t))
    vals = {"label": self.new_name()}
    if self.rng.random() < 0.5:
      vals["colId"] = self.new_name()
    return ["UpdateRecord", "_grist_Tables_column", c["ref"], vals]

  def g_modify_type(self, w):
    t = self._table(w)
    if not t or not w.data_cols(t):
      return None
    c = self.rng.choice(w.data_cols(t))
    if c["reverseCol"] and self.rng.random() < 0.7:
      base, tgt = c["type"].split(":")
      newt = ("RefList:" if base == "Ref" else "Ref:") + tgt
    else:
      newt = self.rng.choice(TYPES_DATA + ["Ref:%s" % t["tableId"], "RefList:%s" % t["tableId"], "DateTime:UTC"])
    if self.rng.random() < 0.5:
      act = ["ModifyColumn", t["tableId"], c["colId"], {"type": newt}]
    else:
      act = ["UpdateRecord", "_grist_Tables_column", c["ref"], {"type": newt}]
    if t["rows"] and self.rng.random() < 0.5:
      # the same bundle goes on to write cells of the column whose type it just changed (a paste after a
      # conversion, ConvertFromColumn): later writes must win over the conversion's own value changes
      k = self.rng.randint(1, min(3, len(t["rows"])))
      rows = self.rng.sample(t["rows"], k)
      newc = dict(c, type=newt)
      more = [["UpdateRecord", t["tableId"], r, {c["colId"]: self.value_for(w, self.rng.choice([c, newc]))}] for r in rows]
      return ([act] + more,)
    return act

  def g_type_change_write(self, w):
    """A type change that really converts stored values, followed IN THE SAME BUNDLE by writes to some
    of the converted cells (conversion + paste; ConvertFromColumn does this too)."""
    t = self._table(w, need_rows=True)
    if not t:
      return None
    pref = {"Int": ["Text", "Bool", "Choice"], "Numeric": ["Text", "Int"], "Text": ["Int", "Numeric", "Choice", "ChoiceList"],
            "Bool": ["Text", "Int"], "Choice": ["ChoiceList", "Text"], "ChoiceList": ["Text", "Choice"],
            "Date": ["Text", "Int"], "Any": ["Text", "Int"]}
    cands = [c for c in w.data_cols(t) if c["type"] in pref and not c["reverseCol"] and not c["summarySourceCol"]]
    if not cands:
      return None
    c = self.rng.choice(cands)
    newt = self.rng.choice(pref[c["type"]])
    if self.rng.random() < 0.5:
      act = ["ModifyColumn", t["tableId"], c["colId"], {"type": newt}]
    else:
      act = ["UpdateRecord", "_grist_Tables_column", c["ref"], {"type": newt}]
    rows = self.rng.sample(t["rows"], self.rng.randint(1, min(3, len(t["rows"]))))
    newc = dict(c, type=newt)
    if self.rng.random() < 0.5:
      more = [["UpdateRecord", t["tableId"], r, {c["colId"]: self.value_for(w, newc)}] for r in rows]
    else:
      more = [["BulkUpdateRecord", t["tableId"], rows, {c["colId"]: [self.value_for(w, newc) for _ in rows]}]]
    return ([act] + more,)

  def g_unhashable_key(self, w):
    """Lookups keyed on an Any column whose cells move between hashable values and lists / dicts (legal
    cell values that cannot be dictionary keys: the lookup index has a special path for them)."""
    import re
    rng = self.rng
    cands = []
    for t in w.tables.values():
      for c in w.visible_cols(t):
        for m in re.finditer(r"(\w+)\.lookup(?:One|Records)\((\w+)=", c["formula"] or ""):
          tgt = w.tables.get(m.group(1))
          kc = [x for x in (tgt["cols"] if tgt else []) if x["colId"] == m.group(2)]
          if kc and not kc[0]["isFormula"] and kc[0]["type"] == "Any" and tgt["rows"]:
            cands.append((tgt, kc[0]))
    if cands and rng.random() < 0.8:
      tgt, kc = rng.choice(cands)
      rows = rng.sample(tgt["rows"], rng.randint(1, min(2, len(tgt["rows"]))))
      vals = [rng.choice([["L", 1, "t"], ["L"], ["O", {"a": 1}], 1, "t", None, ["L", 1, "t"]]) for _ in rows]
      return ["BulkUpdateRecord", tgt["tableId"], rows, {kc["colId"]: vals}]
    if not self.formulas:
      return None
    # build the situation in one bundle: an Any key column with repeated hashable keys, an Any column
    # holding the same values on the looking-up side, and a lookup between them
    ts = [t for t in w.user_tables() if t["rows"]]
    if not ts:
      return None
    t, t2 = rng.choice(ts), rng.choice(ts)
    k, q, f = self.new_name(), self.new_name(), self.new_name()
    form = rng.choice(["len(%s.lookupRecords(%s=$%s))", "%s.lookupOne(%s=$%s).id", "[r.id for r in %s.lookupRecords(%s=$%s)]"])
    return ([["AddColumn", t2["tableId"], k, {"type": "Any", "isFormula": False}],
             ["BulkUpdateRecord", t2["tableId"], list(t2["rows"]), {k: [rng.choice(["t", "t", 1]) for _ in t2["rows"]]}],
             ["AddColumn", t["tableId"], q, {"type": "Any", "isFormula": False}],
             ["BulkUpdateRecord", t["tableId"], list(t["rows"]), {q: [rng.choice(["t", 1, 1]) for _ in t["rows"]]}],
             ["AddColumn", t["tableId"], f, {"type": "Any", "isFormula": True, "formula": form % (t2["tableId"], k, q)}]],)

  def g_agg_unsorted(self, w):
    """An aggregate of a FORMULA column over record sets whose row ids are not ascending (a RefList written
    in descending order, a lookup with order_by='-col'): reading several rows of a partly dirty column."""
    if not self.formulas:
      return None
    rng = self.rng
    ts = [t for t in w.user_tables() if len(t["rows"]) >= 2]
    if not ts:
      return None
    t = rng.choice(ts)
    nums = [c for c in w.data_cols(t) if c["type"] in ("Int", "Numeric") and not c["isFormula"]]
    if not nums:
      return ["AddColumn", t["tableId"], self.new_name(), {"type": "Int", "isFormula": False}]
    x = rng.choice(nums)["colId"]
    rl, f, s1, s2 = self.new_name(), self.new_name(), self.new_name(), self.new_name()
    rows = list(t["rows"])
    def unsorted():
      k = rng.randint(2, min(4, len(rows)))
      sel = sorted(rng.sample(rows, k), reverse=True)
      if rng.random() < 0.3:
        rng.shuffle(sel)
      return ["L"] + sel
    num = "($%s if isinstance($%s, (int, float)) else 0)" % (x, x)
    return ([["AddColumn", t["tableId"], rl, {"type": "RefList:%s" % t["tableId"], "isFormula": False}],
             ["BulkUpdateRecord", t["tableId"], rows, {rl: [unsorted() for _ in rows]}],
             ["AddColumn", t["tableId"], f, {"type": "Any", "isFormula": True, "formula": "%s * 10 + $id" % num}],
             # `$rl.F` reads the column for the whole record set at once; `r.F for r in ...` row by row
             ["AddColumn", t["tableId"], s1, {"type": "Any", "isFormula": True,
                                              "formula": ("sum($%s.%s)" % (rl, f)) if rng.random() < 0.7 else
                                                         ("sum(r.%s for r in $%s)" % (f, rl))}],
             ["AddColumn", t["tableId"], s2, {"type": "Any", "isFormula": True,
                                              "formula": "sum(%s.lookupRecords(order_by='-%s').%s)" % (t["tableId"], x, f)}]],)

  CHAIN_POOL = [10, 20, 30, 40, 50]

  def g_lookup_chain(self, w):
    """A cross-table CHAIN of lookups in which a formula column is itself a lookup key:
         A.x = B.lookupOne(k=$cid).y      B.k = A.lookupOne(cid=$z).w
    with all keys from one small pool, so that one cell edit changes, through the first index, the key under
    which a row sits in the second index while the referring column is already being recalculated.
    Once a chain exists, this kind makes single-cell edits of its key cells."""
    import re
    rng = self.rng
    pool = self.CHAIN_POOL
    chains = []
    for t in w.user_tables():
      for c in w.formula_cols(t):
        m = re.match(r"^(\w+)\.lookupOne\(k_(\w+)=\$(cid_\w+)\)\.y_\w+$", c["formula"] or "")
        if m and m.group(1) in w.tables:
          chains.append((t, w.tables[m.group(1)], m.group(3)))
    if chains and rng.random() < 0.85:
      a, b, cid = rng.choice(chains)
      tag = cid[4:]
      r = rng.random()
      if r < 0.45 and a["rows"]:
        return ["UpdateRecord", a["tableId"], rng.choice(a["rows"]), {cid: rng.choice(pool)}]
      if r < 0.8 and b["rows"]:
        return ["UpdateRecord", b["tableId"], rng.choice(b["rows"]), {"z_" + tag: rng.choice(pool)}]
      if r < 0.9 and a["rows"]:
        return ["UpdateRecord", a["tableId"], rng.choice(a["rows"]), {"w_" + tag: rng.choice(pool)}]
      if b["rows"]:
        return ["UpdateRecord", b["tableId"], rng.choice(b["rows"]), {"y_" + tag: rng.choice(TEXTS)}]
      return None
    if not self.formulas:
      return None
    ts = [t for t in w.user_tables() if t["rows"]]
    if len(ts) < 1:
      return None
    a = rng.choice(ts)
    b = rng.choice(ts)
    self.n_names += 1
    tag = "%d" % self.n_names
    cid, wc, z, y, k, x = ("cid_" + tag, "w_" + tag, "z_" + tag, "y_" + tag, "k_" + tag, "x_" + tag)
    return ([["AddColumn", a["tableId"], cid, {"type": "Int", "isFormula": False}],
             ["AddColumn", a["tableId"], wc, {"type": "Int", "isFormula": False}],
             ["BulkUpdateRecord", a["tableId"], list(a["rows"]),
              {cid: [rng.choice(pool) for _ in a["rows"]], wc: [rng.choice(pool) for _ in a["rows"]]}],
             ["AddColumn", b["tableId"], z, {"type": "Int", "isFormula": False}],
             ["AddColumn", b["tableId"], y, {"type": "Text", "isFormula": False}],
             ["BulkUpdateRecord", b["tableId"], list(b["rows"]),
              {z: [rng.choice(pool + [99]) for _ in b["rows"]], y: ["b%d" % r for r in b["rows"]]}],
             ["AddColumn", b["tableId"], k, {"type": "Any", "isFormula": True,
                                              "formula": "%s.lookupOne(%s=$%s).%s" % (a["tableId"], cid, z, wc)}],
             ["AddColumn", a["tableId"], x, {"type": "Any", "isFormula": True,
                                              "formula": "%s.lookupOne(%s=$%s).%s" % (b["tableId"], k, cid, y)}]],)

  def g_modify_formula(self, w):
    if not self.formulas:
      return None
    t = self._table(w, allow_summary=True)
    if not t or not w.formula_cols(t):
      return None
    cands = [c for c in w.formula_cols(t) if c["colId"] != "group"]
    if not cands:
      return None
    c = self.rng.choice(cands)
    return ["ModifyColumn", t["tableId"], c["colId"], {"formula": self.formula_for(w, t, avoid=c["colId"])}]

  def g_to_formula(self, w):
    if not self.formulas:
      return None
    t = self._table(w)
    if not t or not w.data_cols(t):
      return None
    c = self.rng.choice(w.data_cols(t))
    if c["reverseCol"]:
      return None
    info = {"isFormula": True, "formula": self.formula_for(w, t, avoid=c["colId"])}
    if self.rng.random() < 0.35:
      # type change and conversion to a formula column in ONE ModifyColumn: the stored values are converted
      # (a pending change) and then replaced by the formula's results in the same bundle
      info["type"] = self.rng.choice([x for x in ["Int", "Numeric", "Text", "Bool", "Choice", "Any"] if x != c["type"]])
      if self.rng.random() < 0.4:
        return ["UpdateRecord", "_grist_Tables_column", c["ref"], info]
    return ["ModifyColumn", t["tableId"], c["colId"], info]

  def g_to_data(self, w):
    t = self._table(w)
    if not t or not w.formula_cols(t):
      return None
    c = self.rng.choice(w.formula_cols(t))
    return ["ModifyColumn", t["tableId"], c["colId"], {"isFormula": False}]

  def g_add_table(self, w):
    if len(w.user_tables()) >= 4:
      return None
    name = self.new_name("table")
    cols = [{"id": self.new_name(), "type": self.rng.choice(TYPES_DATA), "isFormula": False, "formula": ""}
            for _ in range(self.rng.randint(1, 3))]
    return ["AddTable", name, cols]

  def g_remove_table(self, w):
    ts = w.user_tables()
    if len(ts) < 2:
      return None
    return ["RemoveTable", self.rng.choice(ts)["tableId"]]

  def g_rename_table(self, w):
    t = self._table(w)
    if not t:
      return None
    return ["RenameTable", t["tableId"], self.new_name("table")]

  def g_duplicate_table(self, w):
    t = self._table(w)
    if not t or len(w.user_tables()) >= 4:
      return None
    return ["DuplicateTable", t["tableId"], self.new_name("table"), self.rng.random() < 0.6]

  def g_summary(self, w):
    t = self._table(w)
    if not t:
      return None
    cands = [c for c in w.data_cols(t) if c["type"].split(":")[0] in
             ("Int", "Text", "Choice", "ChoiceList", "Bool", "Ref", "RefList", "Numeric")]
    k = self.rng.choice([0, 1, 1, 1, 2])
    if k > len(cands):
      k = len(cands)
    gb = [c["ref"] for c in self.rng.sample(cands, k)]
    return ["CreateViewSection", t["ref"], 0, "record", gb, None]

  def _summary_sections(self, w):
    refs = {t["ref"]: t for t in w.user_tables(summary=True)}
    return [s for s in w.sections if s.get("tableRef") in refs and s.get("parentId")], refs

  def g_update_summary(self, w):
    secs, refs = self._summary_sections(w)
    if not secs:
      return None
    s = self.rng.choice(secs)
    st = refs[s["tableRef"]]
    src = [t for t in w.tables.values() if t["ref"] == st["summarySource"]]
    if not src:
      return None
    cands = [c for c in w.data_cols(src[0]) if c["type"].split(":")[0] in
             ("Int", "Text", "Choice", "ChoiceList", "Bool", "Ref", "RefList")]
    k = self.rng.choice([0, 1, 2])
    gb = [c["ref"] for c in self.rng.sample(cands, min(k, len(cands)))]
    return ["UpdateSummaryViewSection", s["id"], gb]

  def g_detach_summary(self, w):
    secs, refs = self._summary_sections(w)
    if not secs or len(w.user_tables()) >= 4:
      return None
    return ["DetachSummaryViewSection", self.rng.choice(secs)["id"]]

  # ------------------------------------------------------------ reference-heavy kinds (C10 / C11)
  def _ref_cols(self, w, linked=None):
    out = []
    for t in w.user_tables():
      for c in w.data_cols(t):
        if c["type"].split(":")[0] in ("Ref", "RefList") and not c["summarySourceCol"]:
          if linked is None or bool(c["reverseCol"]) == linked:
            out.append((t, c))
    return out

  def _ref_value(self, w, c, pool):
    """A value for reference column c drawn from a small pool of target rows (duplicate targets likely)."""
    rng = self.rng
    if c["type"].startswith("Ref:"):
      return rng.choice(pool + [0]) if pool else 0
    k = rng.choice([0, 1, 1, 2, 3])
    if not pool or k == 0:
      return None
    return ["L"] + [rng.choice(pool) for _ in range(k)] if rng.random() < 0.25 else \
           ["L"] + rng.sample(pool, min(k, len(pool)))

  def g_ref_bulk_update(self, w):
    """Bulk update of one reference column: several rows retargeted at once, duplicate targets."""
    rng = self.rng
    cands = [(t, c) for (t, c) in (self._ref_cols(w, linked=True) * 3 + self._ref_cols(w)) if len(t["rows"]) >= 2]
    if not cands:
      return None
    t, c = rng.choice(cands)
    rows = rng.sample(t["rows"], rng.randint(2, min(4, len(t["rows"]))))
    if rng.random() < self.ref_opts.get("dup_rows", 0.0):
      rows.insert(rng.randint(0, len(rows)), rng.choice(rows))
    tgt = w.tables.get(c["type"].split(":", 1)[1], {"rows": []})["rows"]
    pool = rng.sample(tgt, min(len(tgt), rng.choice([1, 2, 2, 3])))
    return ["BulkUpdateRecord", t["tableId"], rows, {c["colId"]: [self._ref_value(w, c, pool) for _ in rows]}]

  def g_ref_pair_update(self, w):
    """Single update of one side of a two-way pair."""
    rng = self.rng
    cands = [(t, c) for (t, c) in self._ref_cols(w, linked=True) if t["rows"]]
    if not cands:
      return None
    t, c = rng.choice(cands)
    tgt = w.tables.get(c["type"].split(":", 1)[1], {"rows": []})["rows"]
    return ["UpdateRecord", t["tableId"], rng.choice(t["rows"]), {c["colId"]: self._ref_value(w, c, list(tgt))}]

  def g_ref_both_sides(self, w):
    """One action writing both columns of a two-way pair that lives in a single table."""
    rng = self.rng
    cands = []
    for (t, c) in self._ref_cols(w, linked=True):
      o = w.cols_by_ref.get(c["reverseCol"])
      if o and o["table"] == t["tableId"] and o["colId"] != c["colId"] and t["rows"]:
        cands.append((t, c, o))
    if not cands:
      return None
    t, c, o = rng.choice(cands)
    return ["UpdateRecord", t["tableId"], rng.choice(t["rows"]),
            {c["colId"]: self._ref_value(w, c, list(t["rows"])), o["colId"]: self._ref_value(w, o, list(t["rows"]))}]

  def _cells(self, w, t, c):
    try:
      col = w.doc.engine.tables[t["tableId"]].get_column(c["colId"])
      return {r: col.raw_get(r) for r in t["rows"]}
    except Exception:
      return {}

  def _targets(self, v):
    if type(v) is int and v:
      return [v]
    if isinstance(v, list):
      return [x for x in v if type(x) is int]
    return []

  def g_add_dangling_id(self, w):
    """AddRecord under an explicit id that some reference cell already points to (dangling)."""
    cands = []
    for (t, c) in self._ref_cols(w):
      tgt = w.tables.get(c["type"].split(":", 1)[1])
      if not tgt:
        continue
      for v in self._cells(w, t, c).values():
        for x in self._targets(v):
          if x not in tgt["rows"] and 0 < x < 1000:
            cands.append((tgt, x))
    if not cands:
      return None
    tgt, x = self.rng.choice(cands)
    return ["AddRecord", tgt["tableId"], x, {}]

  def g_remove_referenced(self, w):
    """Remove rows that reference cells point to (one or several, possibly of several referrers)."""
    rng = self.rng
    cands = {}
    for (t, c) in self._ref_cols(w):
      tgt = w.tables.get(c["type"].split(":", 1)[1])
      if not tgt:
        continue
      for v in self._cells(w, t, c).values():
        for x in self._targets(v):
          if x in tgt["rows"]:
            cands.setdefault(tgt["tableId"], set()).add(x)
    if not cands:
      return None
    tid = rng.choice(sorted(cands))
    rows = sorted(cands[tid])
    k = rng.choice([1, 1, 2, 3])
    pick = rng.sample(rows, min(k, len(rows)))
    if len(pick) == 1 and rng.random() < 0.5:
      return ["RemoveRecord", tid, pick[0]]
    return ["BulkRemoveRecord", tid, pick]

  def g_remove_ref_side(self, w):
    cands = self._ref_cols(w, linked=True)
    if not cands:
      return None
    t, c = self.rng.choice(cands)
    return ["RemoveColumn", t["tableId"], c["colId"]]

  def g_unlink(self, w):
    cands = self._ref_cols(w, linked=True)
    if not cands:
      return None
    t, c = self.rng.choice(cands)
    return ["UpdateRecord", "_grist_Tables_column", c["ref"], {"reverseCol": 0}]

  def g_reverse_column(self, w):
    cands = []
    for t in w.user_tables():
      for c in w.data_cols(t):
        if c["type"].split(":")[0] in ("Ref", "RefList") and not c["reverseCol"]:
          cands.append((t, c))
    if not cands:
      return None
    t, c = self.rng.choice(cands)
    return ["AddReverseColumn", t["tableId"], c["colId"]]

  def g_rename_choices(self, w):
    cands = [(t, c) for t in w.user_tables() for c in w.data_cols(t) if c["type"] in ("Choice", "ChoiceList")]
    if not cands:
      return None
    t, c = self.rng.choice(cands)
    k = self.rng.choice([1, 1, 2])
    olds = self.rng.sample(CHOICES, k)
    mp = {}
    for o in olds:
      mp[o] = self.rng.choice(CHOICES + ["z", "y"])
    if self.rng.random() < 0.3:     # swap
      mp = {"a": "b", "b": "a"}
    return ["RenameChoices", t["tableId"], c["colId"], mp]

  def g_display_formula(self, w):
    cands = [(t, c) for t in w.user_tables() for c in w.data_cols(t) if c["type"].startswith("Ref")]
    if not cands:
      return None
    t, c = self.rng.choice(cands)
    tgt = w.tables.get(c["type"].split(":", 1)[1])
    if not tgt or not w.visible_cols(tgt):
      return None
    vc = self.rng.choice(w.visible_cols(tgt))
    f = "$%s.%s" % (c["colId"], vc["colId"]) if self.rng.random() < 0.8 else ""
    return ["SetDisplayFormula", t["tableId"], None, c["ref"], f]

  # ------------------------------------------------------------ summary-table edits (C12)
  def _c12_targets(self, w):
    """[(source table, [group-by source column dicts])] for every summary table with group-by columns."""
    out = []
    for st in w.user_tables(summary=True):
      src = [t for t in w.tables.values() if t["ref"] == st["summarySource"]]
      if not src or not src[0]["rows"]:
        continue
      gcols = [w.cols_by_ref.get(c["summarySourceCol"]) for c in st["cols"] if c["summarySourceCol"]]
      gcols = [c for c in gcols if c and not c["isFormula"]]
      if gcols:
        out.append((src[0], gcols, st))
    return out

  def _c12_value(self, w, t, col, data):
    """A value for a group-by cell, drawn from a SMALL domain (so that groups merge, split and empty):
    a value another row has, a fresh one, and for list columns duplicates / empty lists / alt text."""
    rng = self.rng
    base = col["type"].split(":")[0]
    have = [v for v in data.columns.get(col["colId"], [])]
    r = rng.random()
    if have and r < 0.45:
      v = rng.choice(have)
      if isinstance(v, (tuple, list)):
        return ["L"] + list(v)
      if v is None or isinstance(v, (bool, int, float, str)):
        return v
    if base == "ChoiceList":
      k = rng.choice([0, 0, 1, 1, 2, 2, 3])
      if k == 0:
        return rng.choice([None, ["L"], "", "junk", 7])
      ch = [rng.choice(CHOICES[:3]) for _ in range(k)]          # duplicates on purpose
      return ["L"] + ch
    if base == "RefList":
      tgt = col["type"].split(":", 1)[1]
      rows = w.tables.get(tgt, {"rows": []})["rows"]
      k = rng.choice([0, 0, 1, 1, 2, 3])
      if not rows or k == 0:
        return rng.choice([None, ["L"], 0, "junk"])
      return ["L"] + [rng.choice(rows[:4]) for _ in range(k)]      # duplicates on purpose
    if base == "Ref":
      tgt = col["type"].split(":", 1)[1]
      rows = w.tables.get(tgt, {"rows": []})["rows"]
      return rng.choice((rows[:3] or [0]) + [0, 0, 99, "junk"])
    if base == "Int":
      return rng.choice([0, 1, 2, 2, 3, None, "", "junk", 1.0, True, 2.5])
    if base == "Numeric":
      return rng.choice([0, 1, 1.5, 1.5, 2, None, "", "junk", True])
    if base == "Bool":
      return rng.choice([True, False, 1, 0, None, "junk", "", 2])
    if base in ("Text", "Choice"):
      return rng.choice(["", "a", "a", "b", "c", None, 1, 1.0, "1", True])
    if base in ("Date", "DateTime"):
      return rng.choice([None, 86400, 86400.0, 86407, 172800, "junk", 0])
    return rng.choice([None, 1, 1.0, True, "1", "t", 2.5, ""])

  def g_c12_regroup(self, w):
    """Change the group-by cells of one or a few source rows of a summary table."""
    ts = self._c12_targets(w)
    if not ts:
      return None
    rng = self.rng
    t, gcols, _ = rng.choice(ts)
    data = w.doc.engine.fetch_table(t["tableId"], formulas=False)
    cols = rng.sample(gcols, rng.randint(1, len(gcols)))
    if len(t["rows"]) >= 2 and rng.random() < 0.35:
      rows = rng.sample(t["rows"], rng.randint(2, min(4, len(t["rows"]))))
      return ["BulkUpdateRecord", t["tableId"], rows,
              {c["colId"]: [self._c12_value(w, t, c, data) for _ in rows] for c in cols}]
    return ["UpdateRecord", t["tableId"], rng.choice(t["rows"]),
            {c["colId"]: self._c12_value(w, t, c, data) for c in cols}]

  def g_c12_empty_group(self, w):
    """Move or remove ALL source rows of one summary row, so that its group becomes empty."""
    ts = self._c12_targets(w)
    if not ts:
      return None
    rng = self.rng
    t, gcols, st = rng.choice(ts)
    sd = w.doc.engine.fetch_table(st["tableId"], formulas=True)
    groups = [g for g in sd.columns.get("group", []) if isinstance(g, (list, tuple)) and 0 < len(g) <= 4]
    if not groups:
      return None
    g = [r for r in rng.choice(groups) if isinstance(r, int)]
    if not g:
      return None
    if rng.random() < 0.4:
      return ["BulkRemoveRecord", t["tableId"], list(g)]
    data = w.doc.engine.fetch_table(t["tableId"], formulas=False)
    c = rng.choice(gcols)
    v = self._c12_value(w, t, c, data)
    return ["BulkUpdateRecord", t["tableId"], list(g), {c["colId"]: [v for _ in g]}]

  def g_c12_add_to_groups(self, w):
    """Add source rows whose group-by cells come from the small domain (existing and new groups)."""
    ts = self._c12_targets(w)
    if not ts:
      return None
    rng = self.rng
    t, gcols, _ = rng.choice(ts)
    data = w.doc.engine.fetch_table(t["tableId"], formulas=False)
    k = rng.choice([1, 1, 2, 3])
    vals = {c["colId"]: [self._c12_value(w, t, c, data) for _ in range(k)] for c in gcols}
    for c in w.data_cols(t):
      if c["colId"] not in vals and rng.random() < 0.5:
        vals[c["colId"]] = [self.value_for(w, c) for _ in range(k)]
    if k == 1:
      return ["AddRecord", t["tableId"], None, {c: v[0] for c, v in vals.items()}]
    return ["BulkAddRecord", t["tableId"], [None] * k, vals]

  def g_c12_error_formula(self, w):
    """A formula column that raises for some rows (division by a cell that may be 0 / None / alt text)."""
    t = self._table(w)
    if not t:
      return None
    nums = [c for c in w.data_cols(t) if c["type"] in ("Int", "Numeric")]
    if not nums:
      return None
    a = self.rng.choice(nums)["colId"]
    f = self.rng.choice(["10 // $%s" % a, "12 // ($%s - 1)" % a, "'k' + str(6 // $%s)" % a])
    return ["AddColumn", t["tableId"], self.new_name(), {"type": "Any", "isFormula": True, "formula": f}]

  def g_c12_summary_any(self, w):
    """CreateViewSection grouped by any visible columns of the source, formula columns included."""
    t = self._table(w)
    if not t:
      return None
    cands = [c for c in w.visible_cols(t) if c["colId"] != "group"]
    fc = [c for c in cands if c["isFormula"]]
    if not fc:
      return None
    gb = [self.rng.choice(fc)["ref"]]
    if len(cands) > 1 and self.rng.random() < 0.4:
      o = self.rng.choice(cands)["ref"]
      if o not in gb:
        gb.append(o)
    return ["CreateViewSection", t["ref"], 0, "record", gb, None]

  def g_c12_retype_groupby(self, w):
    """Change the type of a group-by SOURCE column (list <-> scalar conversions in particular)."""
    ts = self._c12_targets(w)
    if not ts:
      return None
    rng = self.rng
    t, gcols, _ = rng.choice(ts)
    c = rng.choice(gcols)
    base = c["type"].split(":")[0]
    if c["reverseCol"]:
      return None
    if base in ("Choice", "Text"):
      newt = rng.choice(["ChoiceList", "ChoiceList", "Text", "Choice", "Int", "Any"])
    elif base == "ChoiceList":
      newt = rng.choice(["Choice", "Text", "Choice", "Any"])
    elif base == "Ref":
      newt = rng.choice(["RefList:" + c["type"].split(":", 1)[1], "Int", "Any"])
    elif base == "RefList":
      newt = rng.choice(["Ref:" + c["type"].split(":", 1)[1], "Text", "Any"])
    else:
      newt = rng.choice(["Text", "Int", "Numeric", "Bool", "Choice", "ChoiceList", "Date", "Any",
                         "Ref:" + t["tableId"], "RefList:" + t["tableId"]])
    if newt == c["type"]:
      return None
    if rng.random() < 0.5:
      return ["ModifyColumn", t["tableId"], c["colId"], {"type": newt}]
    return ["UpdateRecord", "_grist_Tables_column", c["ref"], {"type": newt}]

  def g_c12_rename_groupby(self, w):
    """Rename a group-by SOURCE column (the summary column and table must follow)."""
    ts = self._c12_targets(w)
    if not ts:
      return None
    t, gcols, _ = self.rng.choice(ts)
    c = self.rng.choice(gcols)
    return ["RenameColumn", t["tableId"], c["colId"], self.new_name()]

  def g_ref_into_summary(self, w):
    """A reference column pointing INTO a summary table, shown through a display helper column: when the
    summary table goes away (its last widget is removed) the column is converted and the helper loses
    its user, which is itself an automatic removal triggered by an automatic removal."""
    sums = w.user_tables(summary=True)
    t = self._table(w)
    if not sums or not t:
      return None
    st = self.rng.choice(sums)
    vcs = [c for c in w.visible_cols(st) if c["colId"] != "group"]
    if not vcs:
      return None
    name = self.new_name()
    next_ref = max(list(w.cols_by_ref) + [0]) + 1
    return ([["AddColumn", t["tableId"], name, {"type": "Ref:%s" % st["tableId"], "isFormula": False}],
             ["SetDisplayFormula", t["tableId"], None, next_ref, "$%s.%s" % (name, self.rng.choice(vcs)["colId"])]],)

  def g_retype_empty(self, w):
    """Change the type of an EMPTY column (isFormula with no formula text) while it stays empty: its cells are
    the type's default, produced by generated code for the empty formula."""
    rng = self.rng
    cands = [(t, c) for t in w.user_tables() for c in w.visible_cols(t)
             if c["isFormula"] and not c["formula"] and not c["summarySourceCol"]]
    if not cands or rng.random() < 0.25:
      t = self._table(w)
      if not t:
        return None
      name = self.new_name()
      add = ["AddColumn", t["tableId"], name, rng.choice([{}, {"type": "Any"}, {"type": "Text"}])]
      if rng.random() < 0.6:
        return ([add, ["ModifyColumn", t["tableId"], name, {"type": rng.choice(["Numeric", "Int", "Bool", "Choice"])}]],)
      return add
    t, c = rng.choice(cands)
    newt = rng.choice([x for x in ["Numeric", "Int", "Text", "Bool", "Date", "Choice", "ChoiceList", "Any", "Numeric", "Text",
                                   "Ref:%s" % t["tableId"]] if x != c["type"]])
    if rng.random() < 0.3:
      # remove and re-add under the same id with another type
      return ([["RemoveColumn", t["tableId"], c["colId"]], ["AddColumn", t["tableId"], c["colId"], {"type": newt}]],)
    return ["ModifyColumn", t["tableId"], c["colId"], {"type": newt}]

  def g_resave_formula(self, w):
    """The same formula saved again with only trailing white space added or dropped (an editor's final newline),
    through ModifyColumn or the column's metadata record."""
    if not self.formulas:
      return None
    rng = self.rng
    cands = [(t, c) for t in w.user_tables() for c in w.formula_cols(t) if c["formula"] and c["colId"] != "group"]
    if not cands:
      return None
    t, c = rng.choice(cands)
    f = c["formula"]
    newf = f.rstrip() if (f != f.rstrip() and rng.random() < 0.6) else f + rng.choice(["\n", " ", "\n\n", "  \n", "\t"])
    if rng.random() < 0.5:
      return ["UpdateRecord", "_grist_Tables_column", c["ref"], {"formula": newf}]
    return ["ModifyColumn", t["tableId"], c["colId"], {"formula": newf}]

  def g_rename_retype(self, w):
    """One bundle that renames a data column (or its table) and THEN changes that column's type so that stored
    values really convert (Text '12' -> Int 12, Int 3 -> Text '3'): the conversion's value changes are recorded under
    the new name and have to be traced back to the old one for the undo / the rollback."""
    rng = self.rng
    pref = {"Int": ["Text", "Bool", "Numeric"], "Numeric": ["Text", "Int"], "Text": ["Int", "Numeric", "Bool"],
            "Bool": ["Int", "Text"], "Choice": ["Int", "Text"], "Any": ["Text", "Int"]}
    cands = [(t, c) for t in w.user_tables() if t["rows"] for c in w.data_cols(t)
             if c["type"] in pref and not c["reverseCol"] and not c["summarySourceCol"]]
    if not cands:
      return None
    t, c = rng.choice(cands)
    newt = rng.choice(pref[c["type"]])
    r = rng.random()
    if r < 0.55:
      self.n_names += 1
      new = "rr%d" % self.n_names
      return ([["RenameColumn", t["tableId"], c["colId"], new],
               ["ModifyColumn", t["tableId"], new, {"type": newt}]],)
    if r < 0.8:
      self.n_names += 1
      newtab = "Trr%d" % self.n_names
      return ([["RenameTable", t["tableId"], newtab],
               ["ModifyColumn", newtab, c["colId"], {"type": newt}]],)
    self.n_names += 1
    new = "rr%d" % self.n_names
    return ([["ModifyColumn", t["tableId"], c["colId"], {"type": newt}],
             ["RenameColumn", t["tableId"], c["colId"], new]],)

  def g_ref_reach_retype(self, w):
    """A formula reaching a column THROUGH a reference ($r.x) on rows some of which hold the blank reference, then a
    schema-level change of the reached column that alters what the blank reference yields (its type's default, its
    removal, its re-creation).  First call(s) build the formula, later calls change the reached column."""
    import re as _re
    if not self.formulas:
      return None
    rng = self.rng
    reach = []
    for t in w.user_tables():
      for c in w.formula_cols(t):
        m = _re.match(r"^\$(\w+)\.(\w+)$", c["formula"] or "")
        if not m:
          continue
        rc = [x for x in w.visible_cols(t) if x["colId"] == m.group(1) and x["type"].split(":")[0] in ("Ref", "RefList")]
        if not rc:
          continue
        tgt = w.tables.get(rc[0]["type"].split(":", 1)[1])
        if tgt:
          xs = [x for x in w.data_cols(tgt) if x["colId"] == m.group(2) and not x["reverseCol"]]
          if xs:
            reach.append((t, rc[0], tgt, xs[0]))
    if reach and rng.random() < 0.75:
      t, r, tgt, x = rng.choice(reach)
      other = {"Text": ["Numeric", "Int", "Bool"], "Numeric": ["Text", "Int"], "Int": ["Text", "Numeric"],
               "Bool": ["Text", "Int"], "Choice": ["Numeric"], "Any": ["Numeric", "Text"]}.get(x["type"], ["Text", "Numeric"])
      k = rng.random()
      if k < 0.7:
        return ["ModifyColumn", tgt["tableId"], x["colId"], {"type": rng.choice(other)}]
      if k < 0.85:
        return ["RemoveColumn", tgt["tableId"], x["colId"]]
      return ["UpdateRecord", "_grist_Tables_column", x["ref"], {"type": rng.choice(other)}]
    # build: a reference column with some blank references and a formula reading through it (self-sufficient: the
    # reference column and blank-reference rows are created in the same bundle when the document has none)
    ok = ("Text", "Numeric", "Int", "Bool", "Choice")
    ts = [t for t in w.user_tables() if any(x["type"] in ok and not x["reverseCol"] for x in w.data_cols(t))]
    if not ts:
      return None
    tgt = rng.choice(ts)
    x = rng.choice([x for x in w.data_cols(tgt) if x["type"] in ok and not x["reverseCol"]])
    refs = [(t, c) for t in w.user_tables() for c in w.data_cols(t) if c["type"] == "Ref:%s" % tgt["tableId"]]
    out = []
    if refs and rng.random() < 0.7:
      t, r = rng.choice(refs)
      rid = r["colId"]
    else:
      t = rng.choice(w.user_tables())
      self.n_names += 1
      rid = "rf%d" % self.n_names
      out.append(["AddColumn", t["tableId"], rid, {"type": "Ref:%s" % tgt["tableId"], "isFormula": False}])
    rows = list(t["rows"])
    if rows and tgt["rows"]:
      vals = [(rng.choice(tgt["rows"]) if i % 2 else 0) for i in range(len(rows))]
      out.append(["BulkUpdateRecord", t["tableId"], rows, {rid: vals}])
    if len(rows) < 3:
      out.append(["BulkAddRecord", t["tableId"], [None, None], {}])        # rows holding the blank reference
    out.append(["AddColumn", t["tableId"], self.new_name(), {"type": "Any", "isFormula": True,
                                                             "formula": "$%s.%s" % (rid, x["colId"])}])
    return (out,)

  def g_column_cycle(self, w):
    """Two formula columns that form a cycle at the COLUMN level but not at the cell level, through a reference to
    the next row: A = $B if $id == 1 else $x ; B = ($nxt.A + 1) if $nxt else 0.  Whichever column the update loop
    enters first meets a locked cell of its own column on the way; that is not a circular reference."""
    if not self.formulas:
      return None
    rng = self.rng
    ts = [t for t in w.user_tables() if len(t["rows"]) >= 2]
    if not ts:
      return None
    t = rng.choice(ts)
    nums = [c for c in w.data_cols(t) if c["type"] in ("Int", "Numeric") and not c["isFormula"]]
    if not nums:
      return ["AddColumn", t["tableId"], self.new_name(), {"type": "Int", "isFormula": False}]
    x = rng.choice(nums)["colId"]
    self.n_names += 1
    tag = "%d" % self.n_names
    # names chosen so that either column may sort first
    a, b = rng.choice([("ca_" + tag, "cb_" + tag), ("cz_" + tag, "cb_" + tag)])
    nxt = "nxt_" + tag
    rows = list(t["rows"])
    nxts = rows[1:] + [0]
    num = "($%s if isinstance($%s, (int, float)) else 0)" % (x, x)
    return ([["AddColumn", t["tableId"], nxt, {"type": "Ref:%s" % t["tableId"], "isFormula": False}],
             ["BulkUpdateRecord", t["tableId"], rows, {nxt: nxts}],
             ["AddColumn", t["tableId"], a, {"type": "Any", "isFormula": True,
                                              "formula": "$%s if $id == %d else %s" % (b, rows[0], num)}],
             ["AddColumn", t["tableId"], b, {"type": "Any", "isFormula": True,
                                              "formula": "($%s.%s + 1) if $%s else 0" % (nxt, a, nxt)}]],)

  def g_summary_chain(self, w):
    """A CHAIN of summary tables: a reference column pointing at rows of a summary table, and a summary of ITS
    table grouped by that reference column - emptying a group of the first summary removes a row there, which
    regroups the second source and empties a group of the second summary in the same bundle."""
    rng = self.rng
    sums = [s_ for s_ in w.user_tables(summary=True) if s_["rows"]]
    ts = [t for t in w.user_tables() if t["rows"]]
    if not sums or not ts:
      return None
    st = rng.choice(sums)
    t = rng.choice(ts)
    if t["ref"] == st["summarySource"] and len(ts) > 1:
      t = rng.choice([x for x in ts if x["ref"] != st["summarySource"]])
    name = self.new_name()
    next_ref = max(list(w.cols_by_ref) + [0]) + 1
    return ([["AddColumn", t["tableId"], name, {"type": "Ref:%s" % st["tableId"], "isFormula": False}],
             ["BulkUpdateRecord", t["tableId"], list(t["rows"]), {name: [rng.choice(st["rows"]) for _ in t["rows"]]}],
             ["CreateViewSection", t["ref"], 0, "record", [next_ref], None]],)

  def g_hide_field(self, w):
    """Hide a column in a widget (remove the view field), preferring group-by fields of summary widgets."""
    widgets = set(s_["id"] for s_ in w.sections if s_.get("parentId"))      # sections placed on a page
    fs = [f for f in w.fields if f.get("parentId") in widgets and f.get("colRef")]
    if not fs:
      return None
    gb = [f for f in fs if w.cols_by_ref.get(f["colRef"], {}).get("summarySourceCol")]
    f = self.rng.choice(gb if gb and self.rng.random() < 0.7 else fs)
    return ["RemoveRecord", "_grist_Views_section_field", f["id"]]

  def g_show_group_field(self, w):
    """Make a summary table's normally hidden `group` column (or another helper-less column) visible in one of its
    widgets: a view field whose column is `group`."""
    secs, refs = self._summary_sections(w)
    if not secs:
      return self.g_summary(w)
    s_ = self.rng.choice(secs)
    st = refs[s_["tableRef"]]
    g = [c for c in st["cols"] if c["colId"] == "group"]
    if not g:
      return None
    if any(f.get("parentId") == s_["id"] and f.get("colRef") == g[0]["ref"] for f in w.fields):
      return ["DetachSummaryViewSection", s_["id"]] if len(w.user_tables()) < 6 else None
    add = ["AddRecord", "_grist_Views_section_field", None, {"parentId": s_["id"], "colRef": g[0]["ref"]}]
    if self.rng.random() < 0.5 and len(w.user_tables()) < 6:
      return ([add, ["DetachSummaryViewSection", s_["id"]]],)
    return add

  def g_remove_summary_widget(self, w):
    secs, _refs = self._summary_sections(w)
    if not secs:
      return None
    return ["RemoveViewSection", self.rng.choice(secs)["id"]]

  def g_add_rule(self, w):
    t = self._table(w)
    if not t or not w.visible_cols(t):
      return None
    c = self.rng.choice(w.visible_cols(t))
    return ["AddEmptyRule", t["tableId"], None, c["ref"]]

  def g_remove_view_stuff(self, w):
    r = self.rng.random()
    if r < 0.3 and len(w.pages) > 1:
      ids = [p["id"] for p in w.pages]
      return ["BulkRemoveRecord", "_grist_Pages", self.rng.sample(ids, self.rng.randint(1, min(2, len(ids))))]
    if r < 0.6 and len(w.views) > 1:
      return ["RemoveView", self.rng.choice(w.views)["id"]]
    secs = [s for s in w.sections if s.get("parentId")]
    if secs:
      return ["RemoveViewSection", self.rng.choice(secs)["id"]]
    return None

  def g_upsert(self, w):
    t = self._table(w)
    if not t or not w.data_cols(t):
      return None
    dc = w.data_cols(t)
    req_cols = self.rng.sample(dc, self.rng.randint(1, min(2, len(dc))))
    other = [c for c in dc if c not in req_cols]
    val_cols = self.rng.sample(other, self.rng.randint(0, min(2, len(other))))
    require = {c["colId"]: self.value_for(w, c, allow_bad=False) for c in req_cols}
    vals = {c["colId"]: self.value_for(w, c, allow_bad=False) for c in val_cols}
    opts = {}
    if self.rng.random() < 0.5:
      opts["on_many"] = self.rng.choice(["first", "none", "all"])
    if self.rng.random() < 0.2:
      opts["update"] = self.rng.random() < 0.5
    if self.rng.random() < 0.2:
      opts["add"] = self.rng.random() < 0.5
    return ["AddOrUpdateRecord", t["tableId"], require, vals, opts]

  def g_upsert_formula_key(self, w):
    """An edit followed, IN THE SAME BUNDLE, by an AddOrUpdateRecord whose lookup key is a FORMULA column: the lookup
    forces the formula column (and whatever it reads) to be evaluated in the middle of the bundle, outside the
    end-of-bundle calculation; the values computed there must still reach `stored` / `undo`."""
    rng = self.rng
    ts = [t for t in w.user_tables() if t["rows"] and [c for c in w.formula_cols(t) if c["colId"] != "group"]
          and w.data_cols(t)]
    if not ts:
      return None
    t = rng.choice(ts)
    f = rng.choice([c for c in w.formula_cols(t) if c["colId"] != "group"])
    first = self.g_update_record(w) if rng.random() < 0.6 else self.g_bulk_update(w)
    dc = rng.choice(w.data_cols(t))
    key = rng.choice([0, 1, 2, 3, 4, 6, 10, 12, "x", "x!", "", None, True])
    opts = {}
    if rng.random() < 0.7:
      opts["add"] = False
    if rng.random() < 0.5:
      opts["on_many"] = rng.choice(["first", "none", "all"])
    up = ["AddOrUpdateRecord", t["tableId"], {f["colId"]: key}, {dc["colId"]: self.value_for(w, dc, allow_bad=False)}, opts]
    row = rng.choice(t["rows"])
    edit = ["UpdateRecord", t["tableId"], row, {c["colId"]: self.value_for(w, c) for c in rng.sample(w.data_cols(t), min(2, len(w.data_cols(t))))}]
    uas = [edit, up]
    if first is not None and not isinstance(first, tuple) and rng.random() < 0.5:
      uas = [first] + uas
    return (uas,)

  def g_temp_ids(self, w):
    """A group of actions using negative temporary ids (returned as a tuple => several actions)."""
    t = self._table(w)
    if not t:
      return None
    rng = self.rng
    uas = []
    k = rng.randint(1, 3)
    temps = [-(i + 1) for i in range(k)]
    cols = [c for c in w.data_cols(t) if rng.random() < 0.8]
    refcols = [(tt, c) for tt in w.user_tables() for c in w.data_cols(tt)
               if c["type"] in ("Ref:" + t["tableId"], "RefList:" + t["tableId"])]
    vals = {c["colId"]: [self.value_for(w, c) for _ in temps] for c in cols}
    for c in cols:
      if c["type"] == "Ref:" + t["tableId"]:
        vals[c["colId"]] = [rng.choice(temps) for _ in temps]
    uas.append(["BulkAddRecord", t["tableId"], temps, vals])
    for (tt, c) in refcols[:2]:
      if tt["rows"] and rng.random() < 0.7:
        v = rng.choice(temps) if c["type"].startswith("Ref:") else ["L"] + rng.sample(temps, rng.randint(1, len(temps)))
        uas.append(["UpdateRecord", tt["tableId"], rng.choice(tt["rows"]), {c["colId"]: v}])
    if w.data_cols(t) and rng.random() < 0.6:
      c = rng.choice(w.data_cols(t))
      uas.append(["UpdateRecord", t["tableId"], rng.choice(temps), {c["colId"]: self.value_for(w, c)}])
    if rng.random() < 0.3:
      uas.append(["RemoveRecord", t["tableId"], rng.choice(temps)])
    return (uas,)

  def g_trigger_column(self, w):
    t = self._table(w)
    if not t:
      return None
    dc = w.data_cols(t)
    deps = [c["ref"] for c in self.rng.sample(dc, self.rng.randint(0, min(2, len(dc))))]
    num = [c for c in dc if c["type"] in ("Int", "Numeric")]
    f = self.rng.choice(["'f' + str($id)", "$id * 100"] + (["($%s or 0) + 1000" % self.rng.choice(num)["colId"]] if num else []))
    return ["AddColumn", t["tableId"], self.new_name(),
            {"type": self.rng.choice(["Any", "Text", "Int"]), "isFormula": False, "formula": f,
             # AddColumn takes the metadata values in BULK form (docmodel.insert): one encoded list
             "recalcWhen": self.rng.choice([0, 0, 1, 2]), "recalcDeps": [["L"] + deps] if deps else None}]

  def g_trigger_config(self, w):
    cands = [(t, c) for t in w.user_tables() for c in w.data_cols(t) if c["formula"]]
    if not cands:
      return None
    t, c = self.rng.choice(cands)
    dc = w.data_cols(t)
    deps = [x["ref"] for x in self.rng.sample(dc, self.rng.randint(0, min(2, len(dc))))]
    return ["UpdateRecord", "_grist_Tables_column", c["ref"],
            {"recalcWhen": self.rng.choice([0, 1, 2]), "recalcDeps": ["L"] + deps if deps else None}]

  def g_undo_earlier(self, w):
    # only the most recent bundle can be undone meaningfully without rebasing
    if not self.past:
      return None
    stored, undo = self.past[-1]
    if not undo:
      return None
    return ["ApplyUndoActions", undo]

  def g_redo_stored(self, w):
    return None

  def g_meta_raw(self, w):
    return None

  def g_side_effect_formula(self, w):
    return None      # replaced by props/c29.py

  def g_remove_readd(self, w):
    """Remove a row and add a row with the same id again in one bundle (explicitly, or implicitly by
    removing the last row: the next automatic id is the one just freed)."""
    t = self._table(w, need_rows=True)
    if not t:
      return None
    rng = self.rng
    r = t["rows"][-1] if rng.random() < 0.6 else rng.choice(t["rows"])
    vals = self._row_values(w, t)
    rid = r if (rng.random() < 0.5 or r != t["rows"][-1]) else None
    return ([["RemoveRecord", t["tableId"], r], ["AddRecord", t["tableId"], rid, vals]],)

  def g_stale_undo(self, w):
    """Replay an OLDER bundle's undo list after the document has moved on (a client undoing a stale
    action): it may name rows / columns that no longer exist, so it may be rejected."""
    if not self.old_undos:
      return None
    return ["ApplyUndoActions", self.rng.choice(self.old_undos)]

  def g_cyclic_formula(self, w):
    """Make some formula column refer to another formula column of the same table (may close a cycle)."""
    t = self._table(w)
    if not t:
      return None
    fc = [c for c in w.formula_cols(t) if c["colId"] != "group"]
    if len(fc) < 1:
      return None
    a = self.rng.choice(fc)
    b = self.rng.choice(fc)
    return ["ModifyColumn", t["tableId"], a["colId"], {"formula": "$%s" % b["colId"]}]

  def g_then_fail(self, w):
    """Any other kind's action(s) followed, in the same bundle, by an action that fails: the bundle is
    rejected AFTER the earlier actions were applied, so the rollback of every kind of action is exercised
    (structural ones in particular: links, summaries, renames, type changes)."""
    rng = self.rng
    kinds = [k for k, wt in self.profile.items() if wt > 0 and k not in ("then_fail", "malformed", "undo_earlier",
                                                                          "redo_stored", "stale_undo")]
    structural = [k for k in ("reverse_column", "summary", "update_summary", "rename_column", "rename_table",
                              "modify_type", "remove_column", "remove_table", "add_ref_column", "display_formula",
                              "add_rule", "duplicate_table", "to_formula", "to_data", "detach_summary",
                              "remove_view_stuff", "type_change_write", "rename_retype", "rename_retype")
                  if self.profile.get(k, 0) > 0]
    for _ in range(8):
      kind = rng.choice(structural if structural and rng.random() < 0.7 else kinds)
      if rng.random() < 0.25:
        kind = "reverse_column"         # link creation: several cooperating schema doc actions
      ua = getattr(self, "g_" + kind)(w)
      if ua is None and kind == "reverse_column":
        # no reference column yet: create one and link it in the same (failing) bundle
        t0 = self._table(w)
        if t0:
          name = self.new_name()
          ua = ([["AddColumn", t0["tableId"], name, {"type": "%s:%s" % (rng.choice(["Ref", "RefList"]), t0["tableId"]),
                                                        "isFormula": False}],
                 ["AddReverseColumn", t0["tableId"], name]],)
      if ua is None:
        continue
      uas = list(ua[0]) if isinstance(ua, tuple) else [ua]
      if rng.random() < 0.4:
        # a second step on what the first one touched: rename then retype (or retype then rename) the same column
        first = uas[0]
        if first[0] == "RenameColumn" and len(first) == 4 and isinstance(first[3], str) and first[3].isidentifier():
          uas.append(["ModifyColumn", first[1], first[3], {"type": rng.choice(["Int", "Text", "Numeric", "Bool"])}])
        elif first[0] == "ModifyColumn" and "type" in (first[3] or {}):
          uas.append(["RenameColumn", first[1], first[2], self.new_name()])
        elif first[0] == "RenameTable" and len(first) == 3:
          pass
      t = self._table(w)
      tid = t["tableId"] if t else "T1"
      bad = rng.choice([["RemoveColumn", tid, "no_such_column_xyz"], ["AddRecord", "NoSuchTable", None, {}],
                        ["UpdateRecord", tid, 999999, {}], ["NoSuchAction", 1]])
      return (uas + [bad],)
    return None

  def g_malformed(self, w):
    rng = self.rng
    t = self._table(w)
    tid = t["tableId"] if t else "T1"
    rows = t["rows"] if t else []
    fc = w.formula_cols(t) if t else []
    opts = [
      ["AddRecord", "NoSuchTable", None, {}],
      ["UpdateRecord", tid, 9999, {}],
      ["UpdateRecord", tid, (rows[0] if rows else 1), {"nosuchcol": 1}],
      ["RemoveColumn", tid, "nosuchcol"],
      ["RenameColumn", tid, "nosuchcol", "x"],
      ["AddRecord", tid, 1000001, {}],
      ["RemoveTable", "NoSuchTable"],
      ["RenameTable", "NoSuchTable", "Z"],
      ["AddRecord", tid, None, {"nosuchcol": 5}],
      ["UpdateRecord", tid, -7, {}],
      ["ModifyColumn", tid, "nosuchcol", {"type": "Int"}],
      ["NoSuchAction", 1],
      ["AddColumn", tid, "badtype%d" % rng.randint(0, 99), {"type": rng.choice(["Foo", "Ref:", "RefList:NoSuchTable", ""]), "isFormula": False}],
      ["AddColumn", tid, "nulf%d" % rng.randint(0, 99), {"type": "Any", "isFormula": True, "formula": "1 +\x00 2"}],
      ["AddOrUpdateRecord", tid, {}, {}, {}],
      ["AddOrUpdateRecord", tid, {"nosuchcol": 1}, {}, {}],
      ["ApplyDocActions", [["AddRecord", tid, (max(rows) if rows else 0) + rng.randint(1, 3), {"nosuchcol": 1}]]],
      ["ApplyDocActions", [["BulkAddRecord", tid, [(max(rows) if rows else 0) + 5, (max(rows) if rows else 0) + 6],
                            {"nosuchcol": [1, 2]}]]],
    ]
    if fc and rows:
      opts.append(["UpdateRecord", tid, rows[0], {fc[0]["colId"]: 5}])
    if t and w.data_cols(t):
      c0 = rng.choice(w.data_cols(t))
      opts.append(["ModifyColumn", tid, c0["colId"], {"type": rng.choice(["Foo", "Ref:", "Bogus:1"])}])
      opts.append(["ModifyColumn", tid, c0["colId"], {"formula": "foo(\x00"}])
      opts.append(["ApplyDocActions", [["RenameColumn", tid, c0["colId"], "class"]]])
      opts.append(["ApplyDocActions", [["AddColumn", tid, "for", {"type": "Int", "isFormula": False, "formula": ""}]]])
    if t and w.data_cols(t):
      c = w.data_cols(t)[0]
      # a valid action followed by an invalid one: "later action fails after earlier ones succeeded"
      good = ["AddRecord", tid, None, {c["colId"]: self.value_for(w, c)}]
      bad = rng.choice(opts)
      return ([good, bad],)
    return rng.choice(opts)
