"""Writes /verif/MANIFEST.json from the table below (run: python -m gx.mkmanifest)."""
import json, os
VERIF = os.path.abspath(os.path.join(os.path.dirname(__file__), "..", ".."))

LN_COMMON = ("Trusted: Lean 4.33 kernel; axioms at most propext/Classical.choice/Quot.sound (audited every run); "
             "hand-written model tied to /repo by the differential correspondence run on every check; ")

# id -> dict(category, text, note, technique, design_ref)
CHECKS = {}
def reg(pid, category, text, note, technique, design_ref=None):
  CHECKS[pid] = dict(category=category, text=text, note=LN_COMMON + note, technique=technique,
                     design_ref=design_ref or ("DESIGN.md section 6 " + pid))

from gx.manifest_table import register
register(reg)

def main():
  props = [json.loads(l) for l in open(os.path.join(VERIF, "properties.jsonl"))]
  ids = [p["id"] for p in props]
  from gx.manifest_table import NOT_APPLICABLE
  checks = []
  for pid in ids:
    if pid not in CHECKS:
      continue
    c = CHECKS[pid]
    checks.append({
      "property_id": pid,
      "quick_cmd": "./check %s --tier quick" % pid,
      "thorough_cmd": "./check %s --tier thorough" % pid,
      "evidence_file": "/verif/evidence/%s.json" % pid,
      "replay_cmd_template": "./check %s --replay {path}" % pid,
      "engine": "lean-proof+correspondence",
      "level_claimed": {"category": c["category"], "text": c["text"], "design_ref": c["design_ref"]},
      "level_note": c["note"],
      "technique": c["technique"],
    })
  na = [{"property_id": pid, "reason": NOT_APPLICABLE.get(pid, "check not built yet (DESIGN.md section 10 build order); no claim is made")}
        for pid in ids if pid not in CHECKS]
  m = {
    "version": 1,
    "setup_cmd": "./setup.sh",
    "hooks": {
      "guard": "GRIST_VERIF",
      "enable": "no source hooks: all instrumentation is run-time wrapping from the harness process (./check sets GRIST_VERIF=1, unused by /repo)",
      "baseline_off_cmd": "cd /repo && /venv/bin/python -m pytest -ra -q -p no:cacheprovider --timeout=900 --continue-on-collection-errors",
      "source_commits": [],
      "add_only": True,
    },
    "engines": [{
      "name": "lean-proof+correspondence",
      "path": "/verif/lean , /verif/harness/gx",
      "serves_properties": [c["property_id"] for c in checks],
      "kind_free_text": "Lean 4 models + kernel-checked theorems (lean/GristModel, lean/GristProps); compiled model driver (gristdrv) run against the real Python code on identical inputs by harness/gx/props/*.py; direct oracle on the real code supplies failing inputs",
    }],
    "checks": checks,
    "not_applicable": na,
    "notes": "See DESIGN.md. known_findings.json lists genuine defects of the unchanged tree (reported as KNOWN-FINDING lines).",
  }
  json.dump(m, open(os.path.join(VERIF, "MANIFEST.json"), "w"), indent=1)
  print("MANIFEST: %d checks, %d not claimed" % (len(checks), len(na)))

if __name__ == "__main__":
  main()
