"""
Run-time recorder for lookup.py's `_LookupRelation` bookkeeping (C05, model Grist.LookupRel).

Nothing under /repo is edited: `_LookupRelation._add_lookup`, `reset_rows`, `reset_all`,
`invalidate_affected_keys` and `get_affected_rows_by_keys` are wrapped at class level (like the
wrappers of recalc_harness.py).  While a `Recorder` is active, every call on a relation whose
tracker belongs to the recorder's engine is appended to that relation's trace:

  ["add", row, key]        _add_lookup returned normally
  ["add_raise", row]       _add_lookup raised (unhashable key: TwoWayMap.insert raises before it
                           stores anything, and the cache is NOT cleared)
  ["reset", [rows]]        reset_rows(rows)          ["reset_allrows"]  reset_rows(ALL_ROWS)
  ["reset_all"]            reset_all()
  ["inv", [keys]]          invalidate_affected_keys(keys, engine); the rows it passed to
                           engine.invalidate_records are captured through an engine proxy
  ["query", [keys]]        get_affected_rows_by_keys(keys) called from outside
                           invalidate_affected_keys (i.e. by get_affected_rows, depend.invalidate_deps)
  ["begin", row]           engine event (wrapper on Engine._recompute_one_cell): an evaluation of cell
                           (referring node, row) starts.  It does not touch the relation; the model
                           uses it for its ghost state only.
  ["settled", [rows]]      engine observation at the end of a bundle (Recorder.settle): the referring
                           rows, among those the relation has seen, that exist and are not in
                           recompute_map.  The model's explicit hypothesis `engineSettled` is
                           evaluated at these points.

Keys are canonicalised per relation: each distinct key (Python equality/hash, which is what
TwoWayMap and the cache use) gets a small integer 1, 2, ..; None is 0 (get_affected_rows_by_keys
skips it); unhashable keys get the token of their repr.
A relation first seen in mid-life (the document's InitNewDoc ran before the recorder) starts its
trace with a snapshot of its current map and cache.
"""
import depend
import engine as engine_mod
import lookup

_state = {"installed": False, "rec": None}


class Trace(object):
  __slots__ = ("rel", "name", "toks", "ops", "results", "init_map", "init_cache", "in_inv", "bad", "rows_seen",
               "n_settled")

  def __init__(self, rel):
    self.rel = rel           # strong reference: keeps id(rel) unique for the recorder's lifetime
    self.name = "%s->%s.%s" % (rel._referring_node, rel._lookup_map.table_id, rel._lookup_map.col_id)
    self.toks = {}
    self.ops = []
    self.results = []        # parallel to ops: rows handed over / query result / None
    self.in_inv = False
    self.bad = []            # recorder problems (re-entrancy ...): reported as infrastructure
    self.rows_seen = set()
    self.n_settled = 0       # len(ops) at the last `settled` observation
    self.init_map = sorted(self.pairs_fwd())
    self.rows_seen.update(p[0] for p in self.init_map)
    self.init_cache = sorted(self.tok(k) for k in rel._invalidated_keys_cache)

  def tok(self, key):
    if key is None:
      return 0
    try:
      t = self.toks.get(key)
      if t is None:
        t = self.toks[key] = len(self.toks) + 1
      return t
    except TypeError:
      r = ("unhashable", repr(key))
      t = self.toks.get(r)
      if t is None:
        t = self.toks[r] = len(self.toks) + 1
      return t

  def pairs_fwd(self):
    return [[r, self.tok(k)] for r, ks in self.rel._row_key_map._fwd.items() for k in ks]

  def pairs_bwd(self):
    return [[r, self.tok(k)] for k, rs in self.rel._row_key_map._bwd.items() for r in rs]

  def final(self):
    return {"map": sorted(self.pairs_fwd()), "map_bwd": sorted(self.pairs_bwd()),
            "cache": sorted(self.tok(k) for k in self.rel._invalidated_keys_cache)}


class Recorder(object):
  """with Recorder(engine) as rec: ...   rec.traces = {id(rel): Trace}"""

  def __init__(self, engine, evals=True):
    self.engine = engine
    self.traces = {}
    self.by_node = {}
    self.evals = evals
    self.eval_stack = []
    self.rel_inv_calls = 0
    self.fanouts = 0
    self.fanout_bad = []     # tracker-level audit: invalidate_affected_keys must reach every known relation

  def trace_of(self, rel):
    tr = self.traces.get(id(rel))
    if tr is None:
      try:
        if rel._relation_tracker._engine is not self.engine:
          return None
      except AttributeError:
        return None
      tr = self.traces[id(rel)] = Trace(rel)
      self.by_node.setdefault(rel._referring_node, []).append(tr)
      # a relation created by the first lookup of an evaluation in progress: that evaluation's begin
      if self.evals and self.eval_stack and self.eval_stack[-1][0] == rel._referring_node:
        tr.ops.append(["begin", self.eval_stack[-1][1]]); tr.results.append(None)
        tr.rows_seen.add(self.eval_stack[-1][1])
    return tr

  def attached(self, tr):
    rel = tr.rel
    try:
      return rel._relation_tracker._lookup_relations.get(rel._referring_node) is rel
    except AttributeError:
      return False

  def settle(self):
    """End of a bundle: for every relation that is still attached to its tracker and saw operations since
    the last observation, record which of its referring rows the engine treats as existing and up to
    date (in the table, not in recompute_map)."""
    eng = self.engine
    for tr in self.traces.values():
      if len(tr.ops) == tr.n_settled or not self.attached(tr):
        continue
      node = tr.rel._referring_node
      table = eng.tables.get(node.table_id)
      rows = []
      if table is not None and table.has_column(node.col_id) and table.get_column(node.col_id).is_formula():
        dirty = eng.recompute_map.get(node)
        if dirty is None:
          dirty = ()
        if dirty != depend.ALL_ROWS:
          rows = sorted(r for r in tr.rows_seen if r in table.row_ids and r not in dirty)
      tr.ops.append(["settled", rows]); tr.results.append(None)
      tr.n_settled = len(tr.ops)

  def start(self):
    install()
    _state["rec"] = self
    return self

  def stop(self):
    if _state["rec"] is self:
      _state["rec"] = None

  __enter__ = start

  def __exit__(self, *a):
    self.stop()


class _EngineProxy(object):
  """Stands in for the engine inside invalidate_affected_keys: records what is handed to
  invalidate_records and forwards everything."""

  def __init__(self, engine, sink):
    self.__dict__["_e"] = engine
    self.__dict__["_sink"] = sink

  def invalidate_records(self, table_id, row_ids=depend.ALL_ROWS, *a, **kw):
    rows = "ALL" if row_ids == depend.ALL_ROWS else sorted(row_ids)
    self._sink.append([table_id, rows, list(kw.get("col_ids") or (a[0] if a else ()) or ())])
    return self._e.invalidate_records(table_id, row_ids, *a, **kw)

  def __getattr__(self, name):
    return getattr(self._e, name)

  def __setattr__(self, name, value):
    setattr(self._e, name, value)


def install():
  if _state["installed"]:
    return
  R = lookup._LookupRelation
  orig_add, orig_reset_rows, orig_reset_all = R._add_lookup, R.reset_rows, R.reset_all
  orig_inv, orig_by_keys = R.invalidate_affected_keys, R.get_affected_rows_by_keys

  def _add_lookup(self, referring_row_id, key):
    rec = _state["rec"]
    tr = rec.trace_of(self) if rec is not None else None
    if tr is None:
      return orig_add(self, referring_row_id, key)
    try:
      r = orig_add(self, referring_row_id, key)
    except BaseException:
      tr.ops.append(["add_raise", referring_row_id]); tr.results.append(None)
      raise
    tr.ops.append(["add", referring_row_id, tr.tok(key)]); tr.results.append(None)
    tr.rows_seen.add(referring_row_id)
    return r
  R._add_lookup = _add_lookup

  def reset_rows(self, referring_rows):
    rec = _state["rec"]
    tr = rec.trace_of(self) if rec is not None else None
    if tr is None:
      return orig_reset_rows(self, referring_rows)
    if referring_rows == depend.ALL_ROWS:
      op = ["reset_allrows"]
    else:
      referring_rows = list(referring_rows)
      op = ["reset", list(referring_rows)]
    r = orig_reset_rows(self, referring_rows)
    tr.ops.append(op); tr.results.append(None)
    return r
  R.reset_rows = reset_rows

  def reset_all(self):
    rec = _state["rec"]
    tr = rec.trace_of(self) if rec is not None else None
    if tr is None:
      return orig_reset_all(self)
    r = orig_reset_all(self)
    tr.ops.append(["reset_all"]); tr.results.append(None)
    # the relation is detached from its tracker now: no more engine events for it
    lst = rec.by_node.get(self._referring_node)
    if lst and tr in lst and not rec.attached(tr):
      lst.remove(tr)
    return r
  R.reset_all = reset_all

  def invalidate_affected_keys(self, affected_keys, engine):
    rec = _state["rec"]
    tr = rec.trace_of(self) if rec is not None else None
    if tr is None:
      return orig_inv(self, affected_keys, engine)
    rec.rel_inv_calls += 1
    keys = sorted(set(tr.tok(k) for k in affected_keys))
    sink = []
    n0 = len(tr.ops)
    tr.in_inv = True
    try:
      r = orig_inv(self, affected_keys, _EngineProxy(engine, sink))
    finally:
      tr.in_inv = False
    if len(tr.ops) != n0:
      tr.bad.append("operations on the relation nested inside invalidate_affected_keys")
    node = self._referring_node
    handed = None
    for (table_id, rows, col_ids) in sink:
      if table_id != node.table_id or col_ids != [node.col_id] or rows == "ALL" or handed is not None:
        handed = {"odd": sink}
      else:
        handed = rows
    tr.ops.append(["inv", keys]); tr.results.append(handed)
    if isinstance(handed, list):
      tr.rows_seen.update(handed)
    return r
  R.invalidate_affected_keys = invalidate_affected_keys

  def get_affected_rows_by_keys(self, keys):
    rec = _state["rec"]
    tr = rec.trace_of(self) if rec is not None else None
    if tr is None or tr.in_inv:
      return orig_by_keys(self, keys)
    keys = list(keys)
    r = orig_by_keys(self, keys)
    tr.ops.append(["query", sorted(set(tr.tok(k) for k in keys))]); tr.results.append(sorted(r))
    return r
  R.get_affected_rows_by_keys = get_affected_rows_by_keys

  T = lookup._RelationTracker
  orig_fan = T.invalidate_affected_keys

  def tracker_invalidate_affected_keys(self, affected_keys):
    rec = _state["rec"]
    if rec is None or self._engine is not rec.engine:
      return orig_fan(self, affected_keys)
    n, c0 = len(self._lookup_relations), rec.rel_inv_calls
    r = orig_fan(self, affected_keys)
    rec.fanouts += 1
    if rec.rel_inv_calls - c0 != n:
      rec.fanout_bad.append("%s.%s: %d relation(s) known, %d reached" % (
        self._lookup_map.table_id, self._lookup_map.col_id, n, rec.rel_inv_calls - c0))
    return r
  T.invalidate_affected_keys = tracker_invalidate_affected_keys

  E = engine_mod.Engine
  orig_one = E._recompute_one_cell

  def _recompute_one_cell(self, table, col, row_id, cycle=False, node=None, **kw):
    rec = _state["rec"]
    if rec is None or not rec.evals or self is not rec.engine:
      return orig_one(self, table, col, row_id, cycle=cycle, node=node, **kw)
    nd = col.node
    for tr in rec.by_node.get(nd, ()):
      tr.ops.append(["begin", row_id]); tr.results.append(None)
      tr.rows_seen.add(row_id)
    rec.eval_stack.append((nd, row_id))
    try:
      return orig_one(self, table, col, row_id, cycle=cycle, node=node, **kw)
    finally:
      rec.eval_stack.pop()
  E._recompute_one_cell = _recompute_one_cell
  _state["installed"] = True


# ----------------------------------------------------------------------------- model comparison

SIDE_EFFECTING = "#summary#"     # helper columns `Table.lookupOrAddDerived(...)`: the evaluation itself adds the
                                 # record it looks up, i.e. changes the index while the column is being computed


def run_driver(ops):
  """The compiled Lean driver on a list of ops (same protocol as common.Check.driver)."""
  import json
  import subprocess
  from gx import common
  if not ops:
    return []
  data = "\n".join(json.dumps(o, separators=(",", ":")) for o in ops) + "\n"
  p = subprocess.run([common.DRIVER], input=data, stdout=subprocess.PIPE, stderr=subprocess.PIPE, text=True, timeout=1200)
  outs = p.stdout.split("\n")
  if outs and outs[-1] == "":
    outs.pop()
  if p.returncode != 0 or len(outs) != len(ops):
    raise RuntimeError("lookuprel driver rc=%s answered %d/%d: %s" % (p.returncode, len(outs), len(ops), p.stderr[-300:]))
  return [json.loads(o) for o in outs]


def trace_op(tr):
  return {"m": "lookuprel", "op": "trace", "init_map": tr.init_map, "init_cache": tr.init_cache, "ops": tr.ops}


def compare(rec, driver):
  """Replay every recorded trace in the Lean model (`driver(list of ops) -> list of answers`) and compare.
  Returns (counters, problems); a problem is (kind, detail, replayable object)."""
  traces = [tr for tr in rec.traces.values() if tr.ops]
  cnt = {"relations": len(traces), "ops": 0, "inv_compared": 0, "inv_handing_rows": 0, "queries_compared": 0,
         "settled_points": 0, "begin_events": 0, "lookups_recorded": 0, "relations_first_seen_midlife": 0,
         "hypothesis_violations": 0, "hypothesis_violations_side_effecting_column": 0,
         "traces_with_lookup_recorded_on_nonempty_cache": 0, "traces_where_variant_without_cache_clear_differs": 0,
         "tracker_fanouts": rec.fanouts, "disagreements": 0}
  problems = []
  if rec.fanout_bad:
    problems.append(("_RelationTracker.invalidate_affected_keys did not reach every known relation",
                     "; ".join(rec.fanout_bad[:3]), {"fanout": rec.fanout_bad[:10]}))
  if not traces:
    return cnt, problems
  answers = driver([trace_op(tr) for tr in traces])
  for tr, ans in zip(traces, answers):
    if "error" in ans:
      raise RuntimeError("lookuprel driver: %s" % ans["error"])
    if tr.bad:
      raise RuntimeError("lookuprel recorder: %s (%s)" % (tr.bad[0], tr.name))
    cnt["ops"] += len(tr.ops)
    if tr.init_map or tr.init_cache:
      cnt["relations_first_seen_midlife"] += 1
    fin = tr.final()
    inv_i = [i for i, o in enumerate(tr.ops) if o[0] == "inv"]
    qry_i = [i for i, o in enumerate(tr.ops) if o[0] == "query"]
    cnt["inv_compared"] += len(inv_i)
    cnt["queries_compared"] += len(qry_i)
    cnt["settled_points"] += sum(1 for o in tr.ops if o[0] == "settled")
    cnt["begin_events"] += sum(1 for o in tr.ops if o[0] == "begin")
    cnt["lookups_recorded"] += sum(1 for o in tr.ops if o[0] == "add")
    cnt["inv_handing_rows"] += sum(1 for i in inv_i if tr.results[i])
    if not ans["adds_on_empty_cache"]:
      cnt["traces_with_lookup_recorded_on_nonempty_cache"] += 1
    if ans["variant_differs"]:
      cnt["traces_where_variant_without_cache_clear_differs"] += 1
    bad = None
    for j, i in enumerate(inv_i):
      if tr.results[i] != ans["handed"][j]:
        bad = ("rows handed to engine.invalidate_records differ", i,
               "op %d %r: code handed %r, model %r" % (i, tr.ops[i], tr.results[i], ans["handed"][j]))
        break
    for j, i in enumerate(qry_i):
      if tr.results[i] != ans["queries"][j] and (bad is None or i < bad[1]):
        bad = ("get_affected_rows_by_keys differs", i,
               "op %d %r: code %r, model %r" % (i, tr.ops[i], tr.results[i], ans["queries"][j]))
        break
    if bad is None and fin["map"] != fin["map_bwd"]:
      bad = ("_row_key_map: _fwd and _bwd hold different relations", len(tr.ops),
             "fwd %r bwd %r" % (fin["map"][:8], fin["map_bwd"][:8]))
    if bad is None and fin["map"] != ans["map"]:
      bad = ("final _row_key_map differs", len(tr.ops),
             "code %d pair(s) %r, model %d pair(s) %r" % (len(fin["map"]), fin["map"][:8], len(ans["map"]), ans["map"][:8]))
    if bad is None and fin["cache"] != ans["cache"]:
      bad = ("final _invalidated_keys_cache differs", len(tr.ops),
             "code %d key(s) %r, model %d key(s) %r" % (len(fin["cache"]), fin["cache"][:8], len(ans["cache"]), ans["cache"][:8]))
    if bad is not None:
      cnt["disagreements"] += 1
      upto = min(len(tr.ops), bad[1] + 1)
      problems.append((bad[0], "%s: %s" % (tr.name, bad[2]),
                       {"relation": tr.name, "init_map": tr.init_map, "init_cache": tr.init_cache,
                        "ops": tr.ops[:upto][-400:], "code_results": tr.results[:upto][-400:], "first_mismatch_op": bad[1],
                        "final_code": fin, "final_model": {"map": ans["map"], "cache": ans["cache"]}}))
    if not ans["settled_ok"]:
      if str(tr.rel._referring_node.col_id).startswith(SIDE_EFFECTING):
        cnt["hypothesis_violations_side_effecting_column"] += 1
      else:
        cnt["hypothesis_violations"] += 1
        i = ans["first_unsettled"]
        problems.append(("hypothesis engineSettled violated: a referring row handed over / reset was not re-evaluated",
                         "%s: op %d %r" % (tr.name, i, tr.ops[i]),
                         {"relation": tr.name, "init_map": tr.init_map, "init_cache": tr.init_cache,
                          "ops": tr.ops[:i + 1][-400:], "first_unsettled": i}))
  return cnt, problems


# ----------------------------------------------------------------------------- synthetic sequences

class _StubMap(object):
  table_id, col_id = "Target", "#lookup#k"


class _StubTracker(object):
  def __init__(self):
    self._lookup_relations = {}
    self.deleted = 0

  def _delete_relation(self, referring_node):
    self._lookup_relations.pop(referring_node, None)
    self.deleted += 1


class _StubEngine(object):
  def __init__(self):
    self.calls = []

  def invalidate_records(self, table_id, row_ids=depend.ALL_ROWS, col_ids=None, **kw):
    self.calls.append([table_id, "ALL" if row_ids == depend.ALL_ROWS else sorted(row_ids), list(col_ids or ())])


# the witnesses of GristProps/C05.lean (L2 example, okOps, mutOps ++ [invalidate [7]])
WITNESSES = [
  [["add", 1, 5], ["inv", [5]], ["add", 2, 5], ["inv", [5]], ["inv", [5, 6]]],
  [["begin", 1], ["add", 1, 5], ["begin", 2], ["add", 2, 5], ["inv", [5]], ["reset", [1, 2]],
   ["begin", 1], ["add", 1, 5], ["begin", 2], ["add", 2, 6], ["settled", [1, 2]], ["inv", [6]], ["inv", [5, 9]]],
  [["begin", 1], ["add", 1, 7], ["inv", [7]], ["begin", 2], ["add", 2, 7], ["inv", [7]]],
]


def random_ops(rng, n):
  ops = []
  for _ in range(n):
    x = rng.random()
    if x < 0.34:
      ops.append(["add", rng.randint(1, 4), rng.randint(1, 3)])
    elif x < 0.37:
      ops.append(["add_raise", rng.randint(1, 4)])
    elif x < 0.70:
      ops.append(["inv", sorted(set(rng.randint(0, 4) for _ in range(rng.randint(0, 3))))])
    elif x < 0.82:
      ops.append(["reset", sorted(set(rng.randint(1, 4) for _ in range(rng.randint(0, 2))))])
    elif x < 0.85:
      ops.append(["reset_allrows"])
    elif x < 0.87:
      ops.append(["reset_all"])
    else:
      ops.append(["query", sorted(set(rng.randint(0, 4) for _ in range(rng.randint(0, 3))))])
  return ops


def run_on_real_class(ops):
  """Apply a token-level operation sequence to a bare `_LookupRelation` of the current tree (key token t is the
  key tuple (t,), token 0 is None, `add_raise` uses an unhashable key).  Returns (results per op, final state)."""
  node = depend.Node("Referring", "x")
  tracker, eng = _StubTracker(), _StubEngine()
  rel = lookup._LookupRelation(_StubMap(), tracker, node)
  tracker._lookup_relations[node] = rel
  key = lambda t: None if t == 0 else (t,)
  results = []
  for op in ops:
    res = None
    if op[0] == "add":
      rel._add_lookup(op[1], key(op[2]))
    elif op[0] == "add_raise":
      try:
        rel._add_lookup(op[1], ([op[1]],))
        res = "did not raise"
      except TypeError:
        pass
    elif op[0] == "reset":
      rel.reset_rows(list(op[1]))
    elif op[0] == "reset_allrows":
      rel.reset_rows(depend.ALL_ROWS)
    elif op[0] == "reset_all":
      rel.reset_all()
    elif op[0] == "inv":
      n0 = len(eng.calls)
      rel.invalidate_affected_keys(set(key(t) for t in op[1]), eng)
      calls = eng.calls[n0:]
      if len(calls) == 1 and calls[0][0] == node.table_id and calls[0][2] == [node.col_id] and calls[0][1] != "ALL":
        res = calls[0][1]
      elif calls:
        res = {"odd": calls}
    elif op[0] == "query":
      res = sorted(rel.get_affected_rows_by_keys([key(t) for t in op[1]]))
    results.append(res)
  tok = lambda k: 0 if k is None else k[0]
  fin = {"map": sorted([r, tok(k)] for r, ks in rel._row_key_map._fwd.items() for k in ks),
         "map_bwd": sorted([r, tok(k)] for k, rs in rel._row_key_map._bwd.items() for r in rs),
         "cache": sorted(tok(k) for k in rel._invalidated_keys_cache)}
  return results, fin


def synthetic_mismatch(ops, results, fin, ans):
  inv_i = [i for i, o in enumerate(ops) if o[0] == "inv"]
  qry_i = [i for i, o in enumerate(ops) if o[0] == "query"]
  for i, r in enumerate(results):
    if r == "did not raise":
      return "op %d %r: _add_lookup with an unhashable key did not raise TypeError" % (i, ops[i])
  for j, i in enumerate(inv_i):
    if results[i] != ans["handed"][j]:
      return "op %d %r: code handed %r to invalidate_records, model %r" % (i, ops[i], results[i], ans["handed"][j])
  for j, i in enumerate(qry_i):
    if results[i] != ans["queries"][j]:
      return "op %d %r: get_affected_rows_by_keys code %r, model %r" % (i, ops[i], results[i], ans["queries"][j])
  if fin["map"] != fin["map_bwd"]:
    return "final _row_key_map: _fwd %r, _bwd %r" % (fin["map"], fin["map_bwd"])
  if fin["map"] != ans["map"]:
    return "final _row_key_map: code %r, model %r" % (fin["map"], ans["map"])
  if fin["cache"] != ans["cache"]:
    return "final _invalidated_keys_cache: code %r, model %r" % (fin["cache"], ans["cache"])
  return None
