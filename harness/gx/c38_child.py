"""
Child process of the C38 check: instantiates the column types in a GIVEN order in a fresh
interpreter (class-level state of usertypes starts empty) and reports, per type name, the default of
the type object, of a live column of that type and of the cell of a record added with no values.
stdin: JSON {"order": [type names]} ; stdout: JSON.
"""
import json
import sys


def canon(v):
  if isinstance(v, bool):
    return ["b", v]
  if isinstance(v, int):
    return ["i", v]
  if isinstance(v, float):
    return ["f", repr(v)]
  if v is None:
    return ["n"]
  if isinstance(v, str):
    return ["s", v]
  return ["o", repr(v)]


def main():
  from gx import common
  common.setup_repo_path()
  order = json.load(sys.stdin)["order"]
  import usertypes
  out = {"type_obj": {}, "type_obj_again": {}, "column": {}, "cell": {}}
  # (1) bare type objects (classes found by typename()), created in the given order, then once more
  classes = {}
  for n in dir(usertypes):
    c = getattr(usertypes, n)
    if isinstance(c, type) and issubclass(c, usertypes.BaseColumnType) and c is not usertypes.BaseColumnType:
      try:
        classes.setdefault(c.typename(), c)
      except Exception:
        pass
  def make(ty):
    c = classes[ty.split(":")[0]]
    for args in ((), (ty.split(":", 1)[1] if ":" in ty else "T",)):
      try:
        return c(*args)
      except TypeError:
        continue
    raise TypeError("cannot instantiate " + ty)
  for which in ("type_obj", "type_obj_again"):
    for ty in order:
      try:
        out[which][ty] = canon(make(ty).default)
      except Exception as e:
        out[which][ty] = ["x", type(e).__name__]
  # (2) a live engine: one table whose columns are added in the given order, one empty record
  from gx import engine_driver as ed
  doc = ed.Doc()
  cols = [{"id": "c%d" % i, "type": ty, "isFormula": False, "formula": ""} for i, ty in enumerate(order)]
  r = doc.apply([["AddTable", "T", cols]])
  if r.ok:
    r = doc.apply([["AddRecord", "T", None, {}]])
  if r.ok:
    t = doc.engine.tables["T"]
    td = doc.engine.fetch_table("T")
    for i, ty in enumerate(order):
      col = t.get_column("c%d" % i)
      out["column"][ty] = canon(col.getdefault())
      out["cell"][ty] = canon(td.columns["c%d" % i][0])
  else:
    out["error"] = list(r.error)
  json.dump(out, sys.stdout)


if __name__ == "__main__":
  main()
