"""
Shared machinery of the C10 / C11 checks (reference columns of the real engine).

* run-time wrappers (no source hooks) around the reference-column code of the CURRENT tree:
    BaseReferenceColumn.__init__/set/copy_from_column, BaseColumn.clear      -> per-column op log
    BaseReferenceColumn.get_updates_for_removed_target_rows                  -> recorded calls
    reverse_references.get_reverse_adjustments                               -> recorded calls
* direct oracles on snapshots of the real engine (written independently of the Lean model):
    C10  removed rows are referenced nowhere; RefList order / None clause; reverse index exact
    C11  Sym on every linked pair after every successful bundle; rejected bundles leave no trace
* component-level differential against the Lean model `Grist.Refs` (driver key "refs").
* generator set-up (documents with reference columns and linked pairs) and scripted scenarios.
"""
import copy
import json
import subprocess

from gx import common

import column as column_mod                    # noqa: E402 (repo, current working tree)
import reverse_references as rr_mod            # noqa: E402

CUR = None          # the HistoryRun that currently receives recorded calls
MAX_CASES = 400     # recorded component-level cases per history

# --------------------------------------------------------------------------- cells


def cell_of_value(v):
  """Python cell value -> model cell JSON (int / list of ints / None / "a"); "neg" if it holds a
  negative id (outside the model's vocabulary: skipped and counted)."""
  if v is None:
    return None
  if type(v) is int:
    return v if v >= 0 else "neg"
  if isinstance(v, list):
    if all(type(x) is int for x in v):
      return list(v) if all(x >= 0 for x in v) else "neg"
    return "a"
  return "a"


def cell_of_token(t):
  """Snapshot token -> model cell JSON."""
  if t is None:
    return None
  if isinstance(t, str):
    if t[:1] == "i":
      n = int(t[1:])
      return n if n >= 0 else "neg"
    if t[:1] == "o":
      try:
        v = json.loads(t[1:])
      except ValueError:
        return "a"
      if isinstance(v, list) and v[:1] == ["L"]:
        items = v[1:]
        if all(type(x) is int for x in items):
          return items if all(x >= 0 for x in items) else "neg"
      return "a"
  return "a"


def kind_of_type(typ):
  base = (typ or "").split(":")[0]
  return base if base in ("Ref", "RefList") else None


def refs_of(kind, cell):
  """Naive reference reading of a cell (independent of the model): the row ids it refers to."""
  if kind == "Ref":
    return [cell] if type(cell) is int and cell != 0 else []
  if kind == "RefList":
    return list(cell) if isinstance(cell, list) else []
  return []


def col_kind(col):
  return "Ref" if isinstance(col, column_mod.ReferenceColumn) else "RefList"


def strip_defaults(cells, kind):
  d = 0 if kind == "Ref" else None
  out = list(cells)
  while len(out) > 1 and out[-1] == d:
    out.pop()
  return out


# --------------------------------------------------------------------------- wrappers

_installed = []


def install_wrappers():
  if _installed:
    return
  BRC = column_mod.BaseReferenceColumn
  orig_init = BRC.__init__

  def __init__(self, table, col_id, col_info):
    orig_init(self, table, col_id, col_info)
    self._gx_ops = []
    self._gx_bad = False
  BRC.__init__ = __init__

  orig_set = BRC.set

  def set(self, row_id, value):
    ops = getattr(self, "_gx_ops", None)
    if ops is not None:
      c = cell_of_value(self._clean_up_value(value))
      if c == "neg" or not (type(row_id) is int and row_id >= 0):
        self._gx_bad = True
      ops.append(["set", row_id, c])
    return orig_set(self, row_id, value)
  BRC.set = set

  orig_copy = BRC.copy_from_column

  def copy_from_column(self, other_column):
    ops = getattr(self, "_gx_ops", None)
    if ops is not None:
      cells = [cell_of_value(v) for v in other_column._data]
      if "neg" in cells:
        self._gx_bad = True
      ops.append(["copy", cells])
    return orig_copy(self, other_column)
  BRC.copy_from_column = copy_from_column

  orig_clear = column_mod.BaseColumn.clear

  def clear(self):
    ops = getattr(self, "_gx_ops", None)
    if ops is not None:
      ops.append(["clear"])
    return orig_clear(self)
  column_mod.BaseColumn.clear = clear

  orig_upd = BRC.get_updates_for_removed_target_rows

  def get_updates_for_removed_target_rows(self, target_row_ids):
    h = CUR
    pre = None
    if h is not None and len(h._refs_cases) < MAX_CASES:
      pre = ([cell_of_value(v) for v in self._data], index_is_exact(self))
    res = orig_upd(self, target_row_ids)
    if pre is not None:
      h._refs_cases.append({"what": "removed", "kind": col_kind(self), "data": pre[0], "exact": pre[1],
                            "rows": sorted(int(r) for r in target_row_ids),
                            "real": [[r, cell_of_value(v)] for (r, v) in res],
                            "col": "%s.%s" % (self.table_id, self.col_id), "bundle": len(h.log)})
    return res
  BRC.get_updates_for_removed_target_rows = get_updates_for_removed_target_rows

  orig_adj = rr_mod.get_reverse_adjustments

  def get_reverse_adjustments(row_ids, old_values, new_values, value_iterator, relation):
    h = CUR
    pre = None
    col = getattr(value_iterator, "__self__", None)
    if h is not None and col is not None and len(h._refs_cases) < MAX_CASES:
      pre = ([cell_of_value(v) for v in col._data], index_is_exact(col), list(row_ids),
             [cell_of_value(v) for v in new_values])
    res = orig_adj(row_ids, old_values, new_values, value_iterator, relation)
    if pre is not None:
      h._refs_cases.append({"what": "adjust", "kind": col_kind(col), "data": pre[0], "exact": pre[1],
                            "rows": pre[2], "values": pre[3],
                            "real": [[t, list(l)] for (t, l) in res],
                            "col": "%s.%s" % (col.table_id, col.col_id), "bundle": len(h.log)})
    return res
  rr_mod.get_reverse_adjustments = get_reverse_adjustments
  _installed.append(True)


def real_index(col):
  """The column's real reverse index, empty sets dropped: {target: sorted rows}."""
  return {t: sorted(s) for t, s in col._relation.inverse_map.items() if s}


def index_from_cells(col):
  """The index recomputed from the stored cells with the naive reading."""
  kind = col_kind(col)
  out = {}
  for r, v in enumerate(col._data):
    c = cell_of_value(v)
    if c == "neg":
      c = v if kind == "Ref" else list(v)
    for t in refs_of(kind, c):
      out.setdefault(t, set()).add(r)
  return {t: sorted(s) for t, s in out.items()}


def index_is_exact(col):
  try:
    return real_index(col) == index_from_cells(col)
  except Exception:
    return False


def ref_columns(doc):
  for tid in sorted(doc.engine.tables):
    t = doc.engine.tables[tid]
    for cid, col in t.all_columns.items():
      if isinstance(col, column_mod.BaseReferenceColumn):
        yield tid, cid, col


# --------------------------------------------------------------------------- snapshots


def snap_cells(snap, tid, cid):
  t = snap.get(tid)
  if t is None or cid not in t["cols"]:
    return None
  return dict(zip(t["ids"], [cell_of_token(x) for x in t["cols"][cid]]))


def _s(tok):
  return tok[1:] if isinstance(tok, str) and tok[:1] == "s" else None


def _i(tok):
  return int(tok[1:]) if isinstance(tok, str) and tok[:1] == "i" else 0


def meta_columns(snap):
  """{colRef: dict(table, col, type, isFormula, reverseCol, summarySourceCol)} from the metadata tables."""
  tabs = snap.get("_grist_Tables")
  cols = snap.get("_grist_Tables_column")
  if not tabs or not cols:
    return {}
  tname = dict(zip(tabs["ids"], [_s(x) for x in tabs["cols"]["tableId"]]))
  out = {}
  cc = cols["cols"]
  for i, ref in enumerate(cols["ids"]):
    out[ref] = {"table": tname.get(_i(cc["parentId"][i])), "col": _s(cc["colId"][i]), "type": _s(cc["type"][i]) or "",
                "isFormula": bool(cc["isFormula"][i]), "reverseCol": _i(cc["reverseCol"][i]),
                "summarySourceCol": _i(cc["summarySourceCol"][i]), "formula": _s(cc["formula"][i]) or ""}
  return out


def pairs_of(snap):
  """Linked pairs {frozenset(colRefs): ((tx, cx, kx), (ty, cy, ky))} of a snapshot."""
  mc = meta_columns(snap)
  out = {}
  for ref, c in mc.items():
    r = c["reverseCol"]
    if not r or r not in mc:
      continue
    o = mc[r]
    k1, k2 = kind_of_type(c["type"]), kind_of_type(o["type"])
    if not k1 or not k2 or c["table"] not in snap or o["table"] not in snap:
      continue
    key = frozenset([ref, r])
    if key in out:
      continue
    a, b = sorted([(ref, c, k1), (r, o, k2)], key=lambda x: x[0])
    out[key] = ((a[1]["table"], a[1]["col"], a[2]), (b[1]["table"], b[1]["col"], b[2]))
  return out


def asymmetries(snap, px, py):
  """Violations of Sym for one pair on a snapshot: list of (a, b, which side refers)."""
  (tx, cx, kx), (ty, cy, ky) = px, py
  x, y = snap_cells(snap, tx, cx), snap_cells(snap, ty, cy)
  if x is None or y is None:
    return []
  out = []
  for a, cell in x.items():
    for b in refs_of(kx, cell if cell != "neg" else None):
      if b in y and a not in refs_of(ky, y[b] if y[b] != "neg" else None):
        out.append((a, b, "%s.%s[%d] refers to %s[%d], not vice versa" % (tx, cx, a, ty, b)))
  for b, cell in y.items():
    for a in refs_of(ky, cell if cell != "neg" else None):
      if a in x and b not in refs_of(kx, x[a] if x[a] != "neg" else None):
        out.append((a, b, "%s.%s[%d] refers to %s[%d], not vice versa" % (ty, cy, b, tx, a)))
  return out


# --------------------------------------------------------------------------- bundle helpers

RECORD_WRITES = ("AddRecord", "BulkAddRecord", "UpdateRecord", "BulkUpdateRecord", "ReplaceTableData")
RAW_ACTIONS = ("ApplyUndoActions", "ApplyDocActions")


def written_values(ua):
  """(table, {col: [values]}) of a record-writing user action, else None."""
  n = ua[0]
  if n in ("AddRecord", "UpdateRecord") and len(ua) >= 4 and isinstance(ua[3], dict):
    return ua[1], {c: [v] for c, v in ua[3].items()}
  if n in ("BulkAddRecord", "BulkUpdateRecord", "ReplaceTableData") and len(ua) >= 4 and isinstance(ua[3], dict):
    return ua[1], {c: list(v) if isinstance(v, list) else [v] for c, v in ua[3].items()}
  if n in ("AddOrUpdateRecord",) and len(ua) >= 4:
    d = {}
    for part in (ua[2], ua[3]):
      if isinstance(part, dict):
        for c, v in part.items():
          d.setdefault(c, []).append(v)
    return ua[1], d
  return None


def _mentions(v, r):
  if v == r:
    return type(v) is int
  if isinstance(v, list):
    return any(type(x) is int and x == r for x in v)
  return False


def flat_actions(actions):
  """(index of the user action, action) with the doc actions inside ApplyUndoActions/ApplyDocActions expanded."""
  for i, ua in enumerate(actions):
    if ua[0] in RAW_ACTIONS and len(ua) > 1 and isinstance(ua[1], list):
      for da in ua[1]:
        if isinstance(da, list) and da:
          yield i, da
    else:
      yield i, ua


def raw_removed(actions):
  """{table: rows} removed by raw doc actions replayed through ApplyUndoActions/ApplyDocActions."""
  out = {}
  for ua in actions:
    if ua[0] in RAW_ACTIONS and len(ua) > 1 and isinstance(ua[1], list):
      for da in ua[1]:
        if not isinstance(da, list) or len(da) < 3:
          continue
        if da[0] == "RemoveRecord":
          out.setdefault(da[1], set()).add(da[2])
        elif da[0] == "BulkRemoveRecord" and isinstance(da[2], list):
          out.setdefault(da[1], set()).update(da[2])
        elif da[0] in ("ReplaceTableData", "RemoveTable"):
          out.setdefault(da[1], set()).add("*")
  return out


def write_indices(actions, tid, cid, r):
  """Indices of the user actions that explicitly write row id `r` into column tid.cid."""
  out = []
  for i, ua in flat_actions(actions):
    w = written_values(ua)
    if w and w[0] == tid and cid in w[1] and any(_mentions(v, r) for v in w[1][cid]):
      out.append(i)
  return out


def writes_column(actions, tid, cid):
  for ua in actions:
    w = written_values(ua)
    if w and w[0] == tid and cid in w[1]:
      return True
  return False


def explicit_removal_index(actions, tid, r):
  for i, ua in enumerate(actions):
    if ua[0] == "RemoveRecord" and ua[1] == tid and ua[2] == r:
      return i
    if ua[0] == "BulkRemoveRecord" and ua[1] == tid and isinstance(ua[2], list) and r in ua[2]:
      return i
  return None


def removed_rows(before, after):
  """{table: set(rows present before and absent after)}; a table that disappeared loses all rows."""
  out = {}
  for tid, t in before.items():
    now = set(after[tid]["ids"]) if tid in after else set()
    gone = set(t["ids"]) - now
    if gone:
      out[tid] = gone
  return out


# --------------------------------------------------------------------------- C10 oracle


def oracle_c10(h, rec):
  before, after, actions = rec["before"], rec["after"], rec["actions"]
  if before is None:
    return
  doc = h.doc
  sch = doc.engine_schema()
  raw = any(ua[0] in RAW_ACTIONS for ua in actions)
  # the exact RefList clause is demanded where the clean-up is the cell's only change: bundles made of removals
  # only, or record edits that neither write the column nor can reach it through a two-way link
  pure = all(ua[0] in ("RemoveRecord", "BulkRemoveRecord", "RemoveTable", "RemoveView", "RemoveViewSection")
             for ua in actions)
  records_only = all(ua[0] in RECORD_WRITES + ("RemoveRecord", "BulkRemoveRecord", "AddOrUpdateRecord")
                     for ua in actions)
  gone = removed_rows(before, after)
  st = h.stats
  if raw:
    # rows removed by replayed raw doc actions (undo of an addition ...) are not one of the property's means
    for t, rows in raw_removed(actions).items():
      if t in gone:
        n0 = len(gone[t])
        gone[t] = set() if "*" in rows else gone[t] - rows
        st["c10_rows_removed_by_raw_doc_actions"] = st.get("c10_rows_removed_by_raw_doc_actions", 0) + n0 - len(gone[t])
    gone = {t: r for t, r in gone.items() if r}
  if gone:
    st["c10_bundles_with_removed_rows"] = st.get("c10_bundles_with_removed_rows", 0) + 1
  referenced_before = False
  for tid in sorted(after):
    cols = sch.get(tid, {})
    for cid in sorted(cols):
      typ, is_formula = cols[cid][0], cols[cid][1]
      kind = kind_of_type(typ)
      if not kind or is_formula or cid not in after[tid]["cols"]:
        continue
      tgt = typ.split(":", 1)[1]
      R = gone.get(tgt)
      if not R:
        continue
      now = snap_cells(after, tid, cid)
      was = snap_cells(before, tid, cid) or {}
      same_target_cols = [(t2, c2) for t2 in sch for c2 in sch[t2]
                          if kind_of_type(sch[t2][c2][0]) and sch[t2][c2][0].split(":", 1)[1] == tgt]
      for row, cell in now.items():
        if cell == "neg":
          continue
        old = was.get(row)
        old_refs = refs_of(kind, old) if old != "neg" else []
        if any(t in R for t in old_refs):
          referenced_before = True
        for t in refs_of(kind, cell):
          if t not in R:
            continue
          # "still points at a removed row": a reference the cell already held, or one written before the removal
          # a request that stores id t in this column, or in any column referring to the same table (summary
          # group-by cells and reverse columns are derived from those), after the removal
          wi = write_indices(actions, tid, cid, t) + [
            i for (t2, c2) in same_target_cols for i in write_indices(actions, t2, c2, t)]
          ri = explicit_removal_index(actions, tgt, t)
          if wi and (ri is None or max(wi) > ri):
            st["c10_dangling_written_by_request"] = st.get("c10_dangling_written_by_request", 0) + 1
            continue
          # likewise a cell that BECOMES a reference only after the removal: a type change of this column to a
          # reference type later in the same bundle reinterprets whatever the cell held (e.g. a list kept as
          # alt text in a Date column) - a dangling reference made by that request, not a left-over
          colref = [r_ for r_, c_ in meta_columns(before).items() if c_["table"] == tid and c_["col"] == cid]
          ti = [i for i, ua in enumerate(actions)
                if (ua[0] == "ModifyColumn" and ua[1] == tid and ua[2] == cid and "type" in (ua[3] or {})) or
                   (ua[0] == "UpdateRecord" and ua[1] == "_grist_Tables_column" and ua[2] in colref and "type" in (ua[3] or {})) or
                   (ua[0] == "BulkUpdateRecord" and ua[1] == "_grist_Tables_column" and set(ua[2]) & set(colref) and "type" in (ua[3] or {}))]
          if ti and (ri is None or max(ti) > ri):
            st["c10_dangling_made_by_type_change_after_removal"] = st.get("c10_dangling_made_by_type_change_after_removal", 0) + 1
            continue
          sig = classify_c10(actions, tid, tgt, kind)
          h._find("C10", sig, "%s[%d].%s = %r still refers to removed row %s[%d]" % (tid, row, cid, cell, tgt, t), rec)
        # RefList clause: other ids in order, None when nothing remains
        # a row of THIS table that the bundle removed (and added again under the same id) is a new record: its cell
        # is whatever the addition supplied, not the old list cleaned up
        row_readded = any(ua[0] in ("RemoveRecord", "BulkRemoveRecord") and ua[1] == tid and
                          row in (ua[2] if isinstance(ua[2], list) else [ua[2]]) for ua in actions)
        if row_readded:
          st["c10_rows_removed_and_readded_skipped"] = st.get("c10_rows_removed_and_readded_skipped", 0) + 1
        if kind == "RefList" and isinstance(old, list) and any(t in R for t in old) and not raw and not row_readded \
            and not writes_column(actions, tid, cid) and (pure or (records_only and not cols[cid][3])):
          # ids removed by the bundle and handed out again to rows added later in it were removed too
          R2 = R | set(r for ua in actions if ua[0] in ("RemoveRecord", "BulkRemoveRecord") and ua[1] == tgt
                       for r in (ua[2] if isinstance(ua[2], list) else [ua[2]]) if type(r) is int)
          want = [t for t in old if t not in R2] or None
          if cell != want and any(ua[0] == "ReplaceTableData" and ua[1] == tgt for ua in actions):
            pass      # reported above under the ReplaceTableData signature
          elif cell != want:
            h._find("C10", "RefList cell is not its old list without the removed ids (order kept, None when empty)",
                    "%s[%d].%s was %r, removed %r, now %r, expected %r" % (tid, row, cid, old, sorted(R), cell, want), rec)
          else:
            st["c10_reflist_cells_cleaned"] = st.get("c10_reflist_cells_cleaned", 0) + 1
        if kind == "Ref" and type(old) is int and old in R and cell == 0:
          st["c10_ref_cells_cleaned"] = st.get("c10_ref_cells_cleaned", 0) + 1
  if referenced_before:
    rec["nontrivial"] = True
  # the reverse index of every reference column is exact
  for tid, cid, col in ref_columns(doc):
    ri, ci = real_index(col), index_from_cells(col)
    if ri != ci:
      h._find("C10", "reverse index of a reference column differs from its cells",
              "%s.%s index %r cells %r" % (tid, cid, ri, ci), rec)
      break


def classify_c10(actions, tid, tgt, kind):
  names = sorted(set(ua[0] for ua in actions))
  if any(ua[0] == "ReplaceTableData" and ua[1] == tgt for ua in actions):
    return "rows dropped by ReplaceTableData stay referenced"
  where = "metadata table" if tid.startswith("_grist_") else "user table"
  tw = "metadata" if tgt.startswith("_grist_") else "user"
  return "%s cell in a %s still refers to a removed %s-table row" % (kind, where, tw)


# --------------------------------------------------------------------------- C11 oracle


def oracle_c11(h, rec):
  before, after, actions = rec["before"], rec["after"], rec["actions"]
  if before is None:
    return
  pb, pa = pairs_of(before), pairs_of(after)
  st = h.stats
  changed_any = False
  if len(actions) > 1 and any(ua[0] in RAW_ACTIONS for ua in actions):
    # recorded doc actions replayed on a state they were not computed for (an undo mixed with other edits in one
    # bundle) are outside the property's premise; a pure undo/redo bundle is checked like any other
    st["c11_mixed_raw_bundles_skipped"] = st.get("c11_mixed_raw_bundles_skipped", 0) + 1
    return
  for key, (px, py) in sorted(pa.items(), key=lambda kv: sorted(kv[0])):
    st["c11_pair_checks"] = st.get("c11_pair_checks", 0) + 1
    tainted = h.__dict__.setdefault("_c11_tainted", set())
    if key in pb and asymmetries(before, *pb[key]):
      st["c11_pairs_already_asymmetric"] = st.get("c11_pairs_already_asymmetric", 0) + 1
      tainted.add(key)
      continue
    if key in tainted and any(ua[0] in RAW_ACTIONS for ua in actions):
      # an undo/redo that faithfully restores a state reported as asymmetric earlier in this history
      st["c11_raw_bundles_on_reported_pairs_skipped"] = st.get("c11_raw_bundles_on_reported_pairs_skipped", 0) + 1
      continue
    bad = asymmetries(after, px, py)
    if key not in pb:
      changed_any = True
      st["c11_links_created"] = st.get("c11_links_created", 0) + 1
    else:
      for (pp, qq) in zip(pb[key], (px, py)):
        if snap_cells(before, pp[0], pp[1]) != snap_cells(after, qq[0], qq[1]) and \
            (snap_cells(after, qq[0], qq[1]) and any(refs_of(qq[2], c if c != "neg" else None)
                                                       for c in snap_cells(after, qq[0], qq[1]).values())
             or any(refs_of(pp[2], c if c != "neg" else None) for c in snap_cells(before, pp[0], pp[1]).values())):
          changed_any = True
      if pb[key][0][2] != px[2] or pb[key][1][2] != py[2]:
        st["c11_type_switches"] = st.get("c11_type_switches", 0) + 1
    if bad:
      tainted.add(key)
      sig = classify_c11(actions, before, pb.get(key), px, py, after, rec.get("res"))
      h._find("C11", sig, "; ".join(x[2] for x in bad[:3]), rec)
  if changed_any:
    rec["nontrivial"] = True


SIG_C11_TRIGGER = ("one side of the two-way pair is a data column with a trigger (default-value) formula: a cell value "
                   "computed by that formula is written without updating the other side")


def classify_c11(actions, before, pbefore, px, py, after=None, res=None):
  tables = {px[0], py[0]}
  if after is not None and res is not None and res.raw_stored:
    mc = meta_columns(after)
    trig = set((c["table"], c["col"]) for c in mc.values() if not c["isFormula"] and c["formula"])
    direct = list(res.direct or [])
    for side in (px, py):
      if (side[0], side[1]) in trig:
        # attributed only when THIS bundle's calculation wrote the column (a stored, non-direct update of it)
        for i, a in enumerate(res.raw_stored):
          if a[0] in ("UpdateRecord", "BulkUpdateRecord") and a[1] == side[0] and side[1] in a[3] and \
              not (i < len(direct) and direct[i]):
            return SIG_C11_TRIGGER
  for ua in actions:
    if ua[0] in ("BulkUpdateRecord",) and ua[1] in tables and isinstance(ua[2], list) \
        and len(set(ua[2])) < len(ua[2]):
      return "bulk update names the same row twice on a two-way reference column"
  if px[0] == py[0]:
    for ua in actions:
      w = written_values(ua)
      if w and w[0] == px[0] and px[1] in w[1] and py[1] in w[1]:
        return "one action writes both columns of a two-way pair living in the same table"
  if pbefore:
    for (src, dst) in ((pbefore[0], pbefore[1]), (pbefore[1], pbefore[0])):
      cells = snap_cells(before, src[0], src[1]) or {}
      have = set(before.get(dst[0], {"ids": []})["ids"])
      dangling = set(t for c in cells.values() for t in refs_of(src[2], c if c != "neg" else None)) - have
      new_rows = set(after[dst[0]]["ids"]) - have if after is not None and dst[0] in after else set()
      if new_rows & dangling:
        return "row added under an id that a dangling two-way reference already points to"
  names = set(ua[0] for ua in actions)
  if any(ua[0] == "ReplaceTableData" and ua[1] in tables for ua in actions):
    return "two-way pair asymmetric after ReplaceTableData on one of its tables"
  if names & set(RAW_ACTIONS):
    return "two-way pair asymmetric after ApplyUndoActions/ApplyDocActions"
  if names & {"AddReverseColumn", "ModifyColumn"} or any(ua[1] == "_grist_Tables_column" for ua in actions if len(ua) > 1):
    return "two-way pair asymmetric after link creation / type switch / column metadata change"
  if names <= {"RemoveRecord", "BulkRemoveRecord"}:
    return "two-way pair asymmetric after record removal"
  if names <= set(RECORD_WRITES) | {"RemoveRecord", "BulkRemoveRecord", "AddOrUpdateRecord"}:
    return "two-way pair asymmetric after record edits"
  return "two-way pair asymmetric after a bundle with schema actions"


def wrap_failed(h):
  """Rejected bundles: a UniqueReferenceError (any rejection, in fact) leaves every table unchanged."""
  orig = h._o_failed

  def _o_failed(rec, before, schema_before, fault=None):
    from gx import engine_driver as ed
    res = rec["res"]
    if res.error and res.error[0] == "UniqueReferenceError":
      h.stats["c11_unique_rejections"] = h.stats.get("c11_unique_rejections", 0) + 1
      rec["nontrivial"] = True
      d = ed.diff_snapshots(before, h.doc.snapshot())
      from gx.hist_run import numeric_only, json_list_parsed_only, formula_cell
      if d and (numeric_only(d) or json_list_parsed_only(d) or all(formula_cell(x, schema_before) for x in d)):
        # the trace is the footprint of one of C04's recorded rollback findings (a type change earlier in the same
        # bundle re-normalises a number / a JSON-list string; formula cells are not recalculated after a rollback),
        # not of the rejected reference edit
        h.stats["c11_unique_rejections_with_c04_footprint"] = h.stats.get("c11_unique_rejections_with_c04_footprint", 0) + 1
      elif d:
        h._find("C11", "bundle rejected with UniqueReferenceError left a trace", "; ".join(d[:3]), rec)
    n0 = len(h.findings)
    out = orig(rec, before, schema_before, fault)
    return out
  h._o_failed = _o_failed


# --------------------------------------------------------------------------- component differential


def _simple_value(kind, v):
  """A request value of the column's own shape -> the cell the engine's convert() gives; None = not simple."""
  if kind == "Ref":
    if type(v) is int and v >= 0:
      return (v,)
    return None
  if v is None:
    return (None,)
  if isinstance(v, list) and v[:1] == ["L"] and all(type(x) is int and x > 0 for x in v[1:]):
    return (list(v[1:]) or None,)
  return None


def pair_cases(h, rec):
  """Single-action bundles on a linked pair -> model ops ("update" / "remove" / "rebuild")."""
  actions, before = rec["actions"], rec["before"]
  if before is None or len(actions) != 1 or len(h._refs_cases) >= MAX_CASES:
    return
  ua = actions[0]
  res = rec["res"]
  pb = pairs_of(before)

  def pair_json(px, py, snap):
    x, y = snap_cells(snap, px[0], px[1]), snap_cells(snap, py[0], py[1])
    if x is None or y is None or "neg" in x.values() or "neg" in y.values():
      return None
    def arr(cells, kind):
      n = max(list(cells) + [0]) + 1
      return [cells.get(i, 0 if kind == "Ref" else None) for i in range(n)]
    return {"x": {"kind": px[2], "data": arr(x, px[2])}, "y": {"kind": py[2], "data": arr(y, py[2])},
            "rowsX": sorted(x), "rowsY": sorted(y)}

  def expect(px, py):
    if not res.ok:
      return {"error": res.error[0]}
    after = rec["after"]
    pj = pair_json(px, py, after)
    return pj

  if ua[0] in ("UpdateRecord", "BulkUpdateRecord") and isinstance(ua[3], dict) and len(ua[3]) == 1:
    tid = ua[1]
    cid = list(ua[3])[0]
    rows = [ua[2]] if ua[0] == "UpdateRecord" else list(ua[2])
    vals = [ua[3][cid]] if ua[0] == "UpdateRecord" else list(ua[3][cid])
    for key, (p1, p2) in pb.items():
      for px, py in ((p1, p2), (p2, p1)):
        if (px[0], px[1]) != (tid, cid) or (px[0], px[1]) == (py[0], py[1]):
          continue
        conv = [_simple_value(px[2], v) for v in vals]
        if any(c is None for c in conv) or not all(type(r) is int and r > 0 for r in rows) or len(rows) != len(vals):
          continue
        pj = pair_json(px, py, before)
        if pj is None:
          continue
        op = dict(pj, m="refs", op="update", rows=rows, values=[c[0] for c in conv])
        h._refs_cases.append({"what": "pair-update", "op": op, "expect": expect(px, py), "bundle": rec["log_index"],
                              "actions": actions})
        return
  if ua[0] in ("AddRecord", "BulkAddRecord") and isinstance(ua[3], dict):
    tid = ua[1]
    ids = [ua[2]] if ua[0] == "AddRecord" else list(ua[2])
    if not all(i is None for i in ids) or tid not in before:
      return
    nxt = max(before[tid]["ids"] + [0]) + 1
    rows = list(range(nxt, nxt + len(ids)))
    for key, (p1, p2) in pb.items():
      for px, py in ((p1, p2), (p2, p1)):
        if px[0] != tid or py[0] == tid or px[1] not in ua[3]:
          continue
        vals = [ua[3][px[1]]] if ua[0] == "AddRecord" else list(ua[3][px[1]])
        conv = [_simple_value(px[2], v) for v in vals]
        if any(c is None for c in conv) or len(vals) != len(rows):
          continue
        pj = pair_json(px, py, before)
        if pj is None:
          continue
        # stale slots of earlier removed rows hold defaults (BulkRemoveRecord unsets them)
        op = dict(pj, m="refs", op="add", rows=rows, values=[c[0] for c in conv])
        h._refs_cases.append({"what": "pair-add", "op": op, "expect": expect(px, py), "bundle": rec["log_index"],
                              "actions": actions})
        return
    return
  if ua[0] in ("RemoveRecord", "BulkRemoveRecord"):
    tid = ua[1]
    rows = [ua[2]] if ua[0] == "RemoveRecord" else list(ua[2])
    if not all(type(r) is int and r > 0 for r in rows):
      return
    for key, (p1, p2) in pb.items():
      for px, py in ((p1, p2), (p2, p1)):
        if px[0] != tid or py[0] == tid:
          continue
        pj = pair_json(px, py, before)
        if pj is None:
          continue
        op = dict(pj, m="refs", op="remove", rows=rows)
        h._refs_cases.append({"what": "pair-remove", "op": op, "expect": expect(px, py), "bundle": rec["log_index"],
                              "actions": actions})
        return
  if ua[0] == "AddReverseColumn" and res.ok:
    pa = pairs_of(rec["after"])
    for key, (p1, p2) in pa.items():
      if key in pb:
        continue
      for px, py in ((p1, p2), (p2, p1)):
        if (px[0], px[1]) != (ua[1], ua[2]):
          continue
        x = snap_cells(before, px[0], px[1])
        if x is None or "neg" in x.values() or py[0] not in before:
          continue
        n = max(list(x) + [0]) + 1
        rowsY = sorted(before[py[0]]["ids"])
        op = {"m": "refs", "op": "rebuild",
              "x": {"kind": px[2], "data": [x.get(i, 0 if px[2] == "Ref" else None) for i in range(n)]},
              "y": {"kind": py[2], "data": [None]}, "rowsX": sorted(x), "rowsY": rowsY}
        after = rec["after"]
        y = snap_cells(after, py[0], py[1])
        h._refs_cases.append({"what": "pair-rebuild", "op": op,
                              "expect": {"y": y, "kind": py[2]}, "bundle": rec["log_index"], "actions": actions})
        return


def _norm_pair(ans, kinds):
  return {"x": strip_defaults(ans["x"], kinds[0]), "y": strip_defaults(ans["y"], kinds[1]),
          "rowsX": sorted(ans["rowsX"]), "rowsY": sorted(ans["rowsY"])}


def finish_history(h):
  """Run the model driver once for everything recorded in this history and compare.  Appends
  ("C10-tie"/"C11-tie", what, detail, replay) to h.findings for every disagreement."""
  cases = h._refs_cases
  ops, meta = [], []
  st = h.stats
  for c in cases:
    if c["what"] == "removed":
      if not c["exact"] or "neg" in c["data"]:
        st["tie_skipped_inexact_or_negative"] = st.get("tie_skipped_inexact_or_negative", 0) + 1
        continue
      ops.append({"m": "refs", "op": "removed", "kind": c["kind"], "data": c["data"], "rows": c["rows"]})
      meta.append(c)
    elif c["what"] == "adjust":
      if not c["exact"] or "neg" in c["data"] or "neg" in c["values"] or \
          not all(type(r) is int and r >= 0 for r in c["rows"]):
        st["tie_skipped_inexact_or_negative"] = st.get("tie_skipped_inexact_or_negative", 0) + 1
        continue
      ops.append({"m": "refs", "op": "adjust", "kind": c["kind"], "rkind": "RefList", "data": c["data"],
                  "rows": c["rows"], "values": c["values"]})
      meta.append(c)
    else:
      ops.append(c["op"])
      meta.append(c)
  # op logs of the live reference columns
  for tid, cid, col in ref_columns(h.doc):
    log = getattr(col, "_gx_ops", None)
    if log is None or col._gx_bad or len(log) > 3000:
      st["tie_columns_skipped"] = st.get("tie_columns_skipped", 0) + 1
      continue
    ops.append({"m": "refs", "op": "run", "kind": col_kind(col), "ops": log})
    meta.append({"what": "run", "col": "%s.%s" % (tid, cid), "kind": col_kind(col),
                 "data": [cell_of_value(v) for v in col._data],
                 "inv": [[t, sorted(s)] for t, s in col._relation.inverse_map.items()], "nops": len(log)})
  if not ops:
    return
  data = "\n".join(json.dumps(o, separators=(",", ":")) for o in ops) + "\n"
  p = subprocess.run([common.DRIVER], input=data, stdout=subprocess.PIPE, stderr=subprocess.PIPE, text=True,
                     timeout=3000)
  lines = p.stdout.splitlines()
  if p.returncode != 0 or len(lines) != len(ops):
    raise common.Infra("refs driver rc=%s answered %d/%d: %s" % (p.returncode, len(lines), len(ops), p.stderr[-300:]))
  for op, c, line in zip(ops, meta, lines):
    ans = json.loads(line)
    what = c["what"]
    st["tie_" + what] = st.get("tie_" + what, 0) + 1
    bad = None
    if what == "removed":
      if ans.get("updates") != c["real"]:
        bad = ("C10-tie", "get_updates_for_removed_target_rows", "model %r real %r" % (ans, c["real"]))
    elif what == "adjust":
      if ans.get("adj") != c["real"]:
        bad = ("C11-tie", "get_reverse_adjustments", "model %r real %r" % (ans.get("adj", ans), c["real"]))
    elif what == "run":
      kind = c["kind"]
      if "error" in ans:
        bad = ("C10-tie", "column operations raise in the model", "%s: %r" % (c["col"], ans))
      elif strip_defaults(ans["data"], kind) != strip_defaults(c["data"], kind) or ans["inv"] != c["inv"]:
        bad = ("C10-tie", "column data / reverse index after the logged operations",
               "%s after %d ops: model data %r inv %r; real data %r inv %r" % (
                 c["col"], c["nops"], ans["data"], ans["inv"], c["data"], c["inv"]))
    elif what in ("pair-update", "pair-remove", "pair-add"):
      exp = c["expect"]
      if exp is None:
        continue
      if "error" in exp or "error" in ans:
        if exp.get("error") != ans.get("error"):
          bad = ("C11-tie", what + " outcome", "model %r real %r for %r" % (ans, exp, c["actions"]))
      else:
        kinds = (op["x"]["kind"], op["y"]["kind"])
        kinds_after = (exp["x"]["kind"], exp["y"]["kind"])
        got = _norm_pair(ans, kinds)
        want = _norm_pair({"x": exp["x"]["data"], "y": exp["y"]["data"], "rowsX": exp["rowsX"], "rowsY": exp["rowsY"]},
                          kinds_after)
        if got != want:
          bad = ("C11-tie", what + " result", "model %r real %r for %r" % (got, want, c["actions"]))
    elif what == "pair-rebuild":
      exp = c["expect"]
      if "error" in ans or exp["y"] is None:
        bad = ("C11-tie", "pair-rebuild outcome", "model %r real %r" % (ans, exp))
      else:
        y = exp["y"]
        n = max(list(y) + [0]) + 1
        want = strip_defaults([y.get(i) for i in range(n)], "RefList")
        if strip_defaults(ans["y"], "RefList") != want:
          bad = ("C11-tie", "pair-rebuild result", "model %r real %r for %r" % (ans["y"], want, c["actions"]))
    if bad:
      rp = h.replay_obj()
      rp["bundle_index"] = c.get("bundle", len(h.log) - 1)
      rp["tie_case"] = {k: v for k, v in c.items() if k in ("what", "col", "rows", "values", "actions")}
      h.findings.append((bad[0], bad[1], bad[2][:900], rp))


# --------------------------------------------------------------------------- history plumbing


def install(h, cfg):
  """Hook for props/_hist.py: direct oracles + recording + the set-up of reference columns."""
  global CUR
  install_wrappers()
  CUR = h
  h._refs_cases = []
  which = cfg.get("refs_oracles", ("c10", "c11"))
  if "c10" in which:
    h.extra_oracles.append(oracle_c10)
  if "c11" in which:
    h.extra_oracles.append(oracle_c11)
    wrap_failed(h)
  h.extra_oracles.append(pair_cases)
  if cfg.get("refs_setup", True):
    h.setup = setup_refs
  for k, v in (cfg.get("gen_opts") or {}).items():
    h.gen.ref_opts[k] = v
  orig_end = h.end

  def end():
    orig_end()
    finish_history(h)
  h.end = end


def setup_refs(h):
  """Generator of set-up bundles (each sees the document left by the previous one): rows, reference
  columns between and within tables, values with duplicate targets, reverse columns."""
  from gx.gen_hist import World
  rng = h.rng
  gen = h.gen
  w = World(h.doc)
  if len(w.user_tables()) < 2 and rng.random() < 0.8:
    yield [["AddTable", gen.new_name("table"), [{"id": gen.new_name(), "type": "Text", "isFormula": False, "formula": ""}]]]
  w = World(h.doc)
  for t in w.user_tables():
    k = rng.randint(2, 5)
    cols = w.data_cols(t)
    yield [["BulkAddRecord", t["tableId"], [None] * k,
            {c["colId"]: [gen.value_for(w, c, allow_bad=False) for _ in range(k)] for c in cols if rng.random() < 0.7}]]
  n_cols = rng.choice([1, 2, 2, 3, 4])
  for _ in range(n_cols):
    w = World(h.doc)
    ts = w.user_tables()
    src = rng.choice(ts)
    tgt = rng.choice(ts) if rng.random() < 0.8 else src
    kind = rng.choice(["Ref", "RefList", "RefList"])
    name = gen.new_name()
    info = {"type": "%s:%s" % (kind, tgt["tableId"]), "isFormula": False}
    if rng.random() < 0.3:
      # data column with a trigger (default-value) formula: has_formula() is true, is_formula() is not
      info["formula"] = "None"
      info["recalcWhen"] = 0
    yield [["AddColumn", src["tableId"], name, info]]
    w = World(h.doc)
    src = w.tables.get(src["tableId"])
    cs = [c for c in (src["cols"] if src else []) if c["colId"] == name]
    if cs and src["rows"]:
      rows = list(src["rows"])
      yield [["BulkUpdateRecord", src["tableId"], rows, {name: [gen.value_for(w, cs[0], allow_bad=False) for _ in rows]}]]
    if rng.random() < 0.65:
      yield [["AddReverseColumn", src["tableId"], name]]
      if rng.random() < 0.3:
        w = World(h.doc)
        for t in w.user_tables():
          for c in w.data_cols(t):
            if c["reverseCol"] and c["type"].startswith("RefList:") and rng.random() < 0.4:
              yield [["ModifyColumn", t["tableId"], c["colId"], {"type": "Ref:" + c["type"].split(":", 1)[1]}]]
              break


# --------------------------------------------------------------------------- scripted scenarios

def _tbl(name, cols):
  return ["AddTable", name, [{"id": c, "type": t, "isFormula": False, "formula": ""} for c, t in cols]]


SCENARIOS = {
  # the witness of GristProps/C11.lean `reverse_adjustments_sym_full_false` (exPair, rows [1, 1])
  "c11-same-row-twice": [
    [_tbl("Y", [("n", "Int")])], [_tbl("X", [("c", "Ref:Y")])],
    [["BulkAddRecord", "Y", [None] * 4, {}]],
    [["BulkAddRecord", "X", [None] * 4, {"c": [1, 1, 2, 0]}]],
    [["AddReverseColumn", "X", "c"]],
    [["BulkUpdateRecord", "X", [1, 1], {"c": [3, 4]}]],
  ],
  "c11-both-sides-one-action": [
    [_tbl("T", [("a", "Ref:T")])],
    [["BulkAddRecord", "T", [None] * 4, {"a": [2, 0, 0, 0]}]],
    [["AddReverseColumn", "T", "a"]],
    [["UpdateRecord", "T", 1, {"a": 1, "T": ["L", 2]}]],
  ],
  "c11-add-under-dangling-id": [
    [_tbl("Y", [("n", "Int")])], [_tbl("X", [("c", "Ref:Y")])],
    [["BulkAddRecord", "Y", [None] * 2, {}]],
    [["BulkAddRecord", "X", [None] * 2, {"c": [1, 5]}]],
    [["AddReverseColumn", "X", "c"]],
    [["AddRecord", "Y", 5, {}]],
  ],
  "c11-trigger-formula-side": [
    [_tbl("B", [("m", "Int")])], [_tbl("A", [("n", "Int")])],
    [["BulkAddRecord", "B", [None] * 2, {"m": [1, 2]}]],
    [["AddColumn", "A", "rl", {"type": "RefList:B", "isFormula": False, "formula": "B.lookupRecords()", "recalcWhen": 0}]],
    [["AddReverseColumn", "A", "rl"]],
    [["AddRecord", "A", None, {"n": 1}]],
  ],
  # a clean scripted run through every proved step (update of both sides, duplicate targets, removal on
  # both sides, type switch, rejected uniqueness violation): must produce no finding
  "c11-clean": [
    [_tbl("Y", [("n", "Int")])], [_tbl("X", [("c", "Ref:Y")])],
    [["BulkAddRecord", "Y", [None] * 4, {}]],
    [["BulkAddRecord", "X", [None] * 4, {"c": [1, 1, 2, 0]}]],
    [["AddReverseColumn", "X", "c"]],
    [["BulkUpdateRecord", "X", [1, 4, 2], {"c": [3, 3, 1]}]],
    [["UpdateRecord", "Y", 4, {"X": ["L", 2, 3]}]],
    [["ModifyColumn", "Y", "X", {"type": "Ref:X"}]],
    [["RemoveRecord", "Y", 3]],
    [["ModifyColumn", "Y", "X", {"type": "Ref:X"}]],
    [["UpdateRecord", "X", 1, {"c": 4}]],
    [["BulkRemoveRecord", "X", [2, 3]]],
    [["ModifyColumn", "X", "c", {"type": "RefList:Y"}]],
  ],
  "c10-replace-table-data": [
    [_tbl("Y", [("n", "Int")])], [_tbl("X", [("c", "Ref:Y"), ("l", "RefList:Y")])],
    [["BulkAddRecord", "Y", [None] * 3, {}]],
    [["BulkAddRecord", "X", [None] * 3, {"c": [1, 3, 3], "l": [["L", 3, 2], ["L", 3], None]}]],
    [["ReplaceTableData", "Y", [1, 2], {"n": [5, 6]}]],
  ],
  "c10-clean": [
    [_tbl("Y", [("n", "Int")])], [_tbl("X", [("c", "Ref:Y"), ("l", "RefList:Y"), ("s", "RefList:X")])],
    [["BulkAddRecord", "Y", [None] * 4, {}]],
    [["BulkAddRecord", "X", [None] * 4, {"c": [1, 3, 3, "junk"], "l": [["L", 3, 2, 3], ["L", 3], None, ["L", 1, 4, 2]],
                                         "s": [["L", 2, 1], ["L", 4], None, ["L", 4, 3]]}]],
    [["BulkRemoveRecord", "Y", [3, 1]]],
    [["RemoveRecord", "X", 4]],
    [["RemoveTable", "Y"]],
  ],
}


def run_scenario(name, which):
  """Run one scripted history with the oracles on; returns the HistoryRun."""
  import random
  from gx.hist_run import HistoryRun
  h = HistoryRun(random.Random(0), n_bundles=0, oracles=("failed",))
  install(h, {"refs_oracles": which, "refs_setup": False})
  for b in SCENARIOS[name]:
    h.apply(copy.deepcopy(b), ["scripted"])
  h.end()
  return h


def replay_history(ck, rp, prop, which):
  """Replay a recorded history: bundles before the offending one plainly, that one with the oracles."""
  import random
  from gx.hist_run import HistoryRun
  r = rp["replay"]
  hist = r["history"]
  idx = r.get("bundle_index", len(hist) - 1)
  h = HistoryRun(random.Random(0), n_bundles=0, oracles=("failed",))
  install(h, {"refs_oracles": which, "refs_setup": False})
  for b in hist[:idx]:
    h._raw(b)
    ck.evaluated()
  h.apply(hist[idx], ["replay"])
  ck.evaluated()
  for b in hist[idx + 1:]:
    h._raw(b)
  finish_history(h)
  shown = False
  for f in h.findings:
    print("replay finding:", f[0], f[1], f[2][:300])
    if f[0] == prop:
      ck.violation(f[1], f[2], {"history": hist, "bundle_index": idx})
      shown = True
  for f in h.findings:
    if f[0] == prop + "-tie" and not ck.has_impl_violation():
      ck.broken("correspondence " + f[1], f[2], {"history": hist, "bundle_index": idx})
      shown = True
  if not shown:
    print("replay: property holds on this history")
  ck.nontrivial_case("replay"); ck.nontrivial_case("replay2")


def report_scripted(ck, prop, name, h):
  """Findings of one scripted scenario -> violations now, model/impl disagreements kept for report_ties."""
  hit = False
  for (p, sig, detail, rp) in h.findings:
    if p == prop:
      hit = True
      ck.violation(sig, detail, dict(rp, scenario=name))
  ties = [(p, sig, detail, dict(rp, scenario=name), "scenario:" + name) for (p, sig, detail, rp) in h.findings
          if p == prop + "-tie" and not hit]
  ck.__dict__.setdefault("_scripted_ties", []).extend(ties)
  return hit


def report_ties(ck, merged, prop):
  """model != implementation findings recorded by finish_history -> broken correspondence (only
  when no violation of the property itself explains them)."""
  ties = [f for f in merged["findings"] if f[0] == prop + "-tie"]
  bad_seeds = set(f[4] for f in merged["findings"] if f[0] == prop)
  ties = [f for f in ties if f[4] not in bad_seeds] + list(getattr(ck, "_scripted_ties", []))
  ck.cov["counters"]["refs_model_impl_disagreements"] = len(ties)
  if ties and not ck.has_impl_violation():
    p, what, detail, replay, seed = ties[0]
    ck.broken("correspondence Grist.Refs vs engine (%s)" % what, "%d disagreement(s); first: %s" % (len(ties), detail),
              dict(replay, seed=seed))


install_wrappers()


# --------------------------------------------------------------------------- component-level small scopes
# The real functions are driven directly (no engine): a real ReferenceRelation filled through add_reference and the
# real (unbound) column methods applied to a minimal stand-in object.

def _stand_in(kind, cells):
  import types
  import relation as relation_mod
  import usertypes
  fake = types.SimpleNamespace()
  fake.type_obj = usertypes.Reference("Y") if kind == "Ref" else usertypes.ReferenceList("Y")
  cls = column_mod.ReferenceColumn if kind == "Ref" else column_mod.ReferenceListColumn
  default = 0 if kind == "Ref" else None
  data = [("alt" if c == "a" else c) for c in cells]
  fake._data = data
  fake.getdefault = lambda: default
  fake.raw_get = lambda r: data[r] if 0 <= r < len(data) else default
  fake._value_iterable = types.MethodType(cls._value_iterable, fake)
  fake._list_to_value = types.MethodType(cls._list_to_value, fake)
  fake._raw_get_without = types.MethodType(cls._raw_get_without, fake)
  fake._relation = relation_mod.ReferenceRelation("X", "Y", "c")
  for r, v in enumerate(data):
    for t in fake._value_iterable(v):
      fake._relation.add_reference(r, t)
  return fake


def c10_scope(ck):
  """Exhaustive small scope for get_updates_for_removed_target_rows: real function vs model vs the clauses."""
  global CUR
  import itertools
  CUR = None
  orig = column_mod.BaseReferenceColumn.get_updates_for_removed_target_rows
  cases = []
  ref_cells = [0, 1, 2, 3, "a"]
  list_cells = [None, [1], [2], [1, 2], [2, 1], [3, 1, 3], "a"]
  subsets = [s for k in (1, 2, 3) for s in itertools.combinations([1, 2, 3], k)]
  for kind, opts in (("Ref", ref_cells), ("RefList", list_cells)):
    for cells in itertools.product(opts, repeat=3):
      for rem in subsets:
        if ck.tier == "quick" and kind == "RefList" and ck.rng.random() > 0.5:
          continue
        cases.append((kind, [0 if kind == "Ref" else None] + list(cells), list(rem)))
  ops = [{"m": "refs", "op": "removed", "kind": k, "data": d, "rows": r} for (k, d, r) in cases]
  answers = ck.driver(ops)
  mism = None
  for (kind, data, rem), ans in zip(cases, answers):
    ck.evaluated()
    fake = _stand_in(kind, data)
    ups = [[r, cell_of_value(v) if v != "alt" else "a"] for (r, v) in orig(fake, set(rem))]
    after = list(data)
    for r, v in ups:
      after[r] = v
    # the property's clauses on the real result
    bad = None
    for r, (old, new) in enumerate(zip(data, after)):
      if any(t in rem for t in refs_of(kind, new if new != "a" else None)):
        bad = ("clean-up leaves a reference to a removed row", "cell %r -> %r, removed %r" % (old, new, rem))
      hit = any(t in rem for t in refs_of(kind, old if old != "a" else None))
      if kind == "RefList" and hit and new != ([t for t in old if t not in rem] or None):
        bad = ("RefList cell is not its old list without the removed ids (order kept, None when empty)",
               "cell %r -> %r, removed %r" % (old, new, rem))
      if not hit and new != old:
        bad = ("clean-up changes a cell that does not refer to a removed row", "cell %r -> %r, removed %r" % (old, new, rem))
    if any(refs_of(kind, c if c != "a" else None) for c in data) and any(
        t in rem for c in data for t in refs_of(kind, c if c != "a" else None)):
      ck.nontrivial_case(["scope", kind, data, rem])
    if bad:
      ck.violation(bad[0], bad[1], {"component": "removed", "kind": kind, "data": data, "rows": rem})
    if ans.get("updates") != ups or ans.get("after") != after:
      ck.count("model_impl_disagreements")
      if mism is None:
        mism = {"kind": kind, "data": data, "rows": rem, "real": ups, "model": ans}
  ck.count("component_scope_cases", len(cases))
  if mism and not ck.has_impl_violation():
    ck.broken("correspondence get_updates_for_removed_target_rows (small scope)",
              "model and implementation differ and the clauses hold on all explored inputs", mism)


def replay_component_c10(ck, r):
  fake = _stand_in(r["kind"], r["data"])
  orig = column_mod.BaseReferenceColumn.get_updates_for_removed_target_rows
  ups = orig(fake, set(r["rows"]))
  after = list(r["data"])
  for row, v in ups:
    after[row] = cell_of_value(v) if v != "alt" else "a"
  ck.evaluated()
  kind, rem = r["kind"], r["rows"]
  ok = True
  for old, new in zip(r["data"], after):
    hit = any(t in rem for t in refs_of(kind, old if old != "a" else None))
    if any(t in rem for t in refs_of(kind, new if new != "a" else None)) or (not hit and new != old) or \
        (kind == "RefList" and hit and new != ([t for t in old if t not in rem] or None)):
      ok = False
  print("replay: data=%r removed=%r -> %r: %s" % (r["data"], rem, after, "property holds" if ok else "VIOLATED"))
  if not ok:
    ck.violation("clean-up clauses fail on a small column", "%r -> %r" % (r["data"], after), r)
  ck.nontrivial_case("replay"); ck.nontrivial_case("replay2")


def _apply_update(kind, rkind, x, y, rows, vals):
  """Real get_reverse_adjustments + _list_to_value on stand-ins; returns (x', y', adj) or ("error", cls, adj)."""
  fx = _stand_in(kind, x)
  fy = _stand_in(rkind, y)
  olds = [fx.raw_get(r) for r in rows]
  news = [("alt" if v == "a" else v) for v in vals]
  adj = rr_mod.get_reverse_adjustments(rows, olds, news, fx._value_iterable, fx._relation)
  adj = [[t, list(l)] for (t, l) in adj]
  try:
    adj_vals = [(t, fy._list_to_value(l)) for (t, l) in adj]
  except column_mod.UniqueReferenceError:
    return ("error", "UniqueReferenceError", adj)
  x2, y2 = list(x), list(y)
  for r, v, o in zip(rows, vals, olds):
    if ("alt" if v == "a" else v) != o:       # trim_update_action
      x2[r] = v
  for t, v in adj_vals:
    while len(y2) <= t:
      y2.append(0 if rkind == "Ref" else None)
    y2[t] = v
  return (x2, y2, adj)


def c11_scope(ck):
  """Small scope for prepare_new_values / get_reverse_adjustments / _list_to_value on 3x3 rows:
  real functions vs the model, Sym and the uniqueness clause evaluated on the real results."""
  global CUR
  import itertools
  CUR = None
  rng = ck.rng
  opts = {"Ref": [0, 1, 2, 3], "RefList": [None, [1], [2], [1, 2], [3, 1], [2, 2]]}
  row_lists = [[a] for a in (1, 2, 3)] + [[a, b] for a in (1, 2, 3) for b in (1, 2, 3)]
  cases = []
  for kind in ("Ref", "RefList"):
    states = list(itertools.product(opts[kind], repeat=3))
    for cells in states:
      x = [0 if kind == "Ref" else None] + list(cells)
      ref_by = {b: sorted(set(a for a in (1, 2, 3) if b in refs_of(kind, x[a]))) for b in (1, 2, 3)}
      for rkind in ("Ref", "RefList"):
        if rkind == "Ref" and any(len(v) > 1 for v in ref_by.values()):
          continue      # no symmetric single-valued reverse column exists for this state
        y = [0 if rkind == "Ref" else None] + [
          ((ref_by[b][0] if ref_by[b] else 0) if rkind == "Ref" else (ref_by[b] or None)) for b in (1, 2, 3)]
        for rows in row_lists:
          for vals in itertools.product(opts[kind], repeat=len(rows)):
            p = 1.0 if ck.tier == "thorough" else (0.5 if kind == "Ref" else 0.035)
            if rng.random() > p:
              continue
            cases.append((kind, rkind, x, y, rows, list(vals)))
  ops = [{"m": "refs", "op": "update", "x": {"kind": k, "data": x}, "y": {"kind": rk, "data": y},
          "rowsX": [1, 2, 3], "rowsY": [1, 2, 3], "rows": rows, "values": vals}
         for (k, rk, x, y, rows, vals) in cases]
  answers = ck.driver(ops)
  mism = None
  for (kind, rkind, x, y, rows, vals), ans in zip(cases, answers):
    ck.evaluated()
    res = _apply_update(kind, rkind, x, y, rows, vals)
    dup = len(set(rows)) < len(rows)
    rp = {"component": "update", "kind": kind, "rkind": rkind, "x": x, "y": y, "rows": rows, "values": vals}
    if res[0] == "error":
      ck.count("scope_unique_rejections")
      if not dup:
        # "exactly when a single-valued side would get two referrers"
        x2 = list(x)
        for r, v in zip(rows, vals):
          x2[r] = v
        touched = set(t for r, v in zip(rows, vals) if v != x[r] for t in refs_of(kind, x[r]) + refs_of(kind, v))
        two = any(len(set(a for a in (1, 2, 3) if t in refs_of(kind, x2[a]))) > 1 for t in touched)
        if not (rkind == "Ref" and two):
          ck.violation("UniqueReferenceError although no single-valued cell would get two referrers", repr(rp), rp)
      real = {"error": "UniqueReferenceError"}
    else:
      x2, y2, adj = res
      if x2 != x:
        ck.nontrivial_case(["scope", kind, rkind, x, rows, vals])
      asym = [(a, b) for a in (1, 2, 3) for b in (1, 2, 3)
              if (b in refs_of(kind, x2[a])) != (a in refs_of(rkind, y2[b]))]
      if asym:
        sig = "bulk update names the same row twice on a two-way reference column" if dup else \
              "two-way pair asymmetric after an accepted update (small scope)"
        ck.violation(sig, "x %r -> %r, y %r -> %r, asymmetric at %r" % (x, x2, y, y2, asym[:3]), rp)
      if not dup and rkind == "Ref":
        two = any(len(set(a for a in (1, 2, 3) if t in refs_of(kind, x2[a]))) > 1 for t in (1, 2, 3))
        if two and not asym:
          pass
      real = {"x": strip_defaults(x2, kind), "y": strip_defaults(y2, rkind)}
    got = {"error": ans["error"]} if "error" in ans else \
          {"x": strip_defaults(ans["x"], kind), "y": strip_defaults(ans["y"], rkind)}
    if got != real:
      ck.count("model_impl_disagreements")
      if mism is None:
        mism = dict(rp, real=real, model=got)
  ck.count("component_scope_cases", len(cases))
  if mism and not ck.has_impl_violation():
    ck.broken("correspondence prepare_new_values/get_reverse_adjustments/_list_to_value (small scope)",
              "model and implementation differ and the clauses hold on all explored inputs", mism)


def replay_component_c11(ck, r):
  res = _apply_update(r["kind"], r["rkind"], r["x"], r["y"], r["rows"], r["values"])
  ck.evaluated()
  kind, rkind = r["kind"], r["rkind"]
  if res[0] == "error":
    print("replay: rejected with", res[1])
  else:
    x2, y2, adj = res
    asym = [(a, b) for a in (1, 2, 3) for b in (1, 2, 3)
            if (b in refs_of(kind, x2[a])) != (a in refs_of(rkind, y2[b]))]
    print("replay: x %r -> %r, y %r -> %r, adjustments %r: %s" % (
      r["x"], x2, r["y"], y2, adj, ("ASYMMETRIC at %r" % asym) if asym else "symmetric"))
    if asym:
      dup = len(set(r["rows"])) < len(r["rows"])
      ck.violation("bulk update names the same row twice on a two-way reference column" if dup else
                   "two-way pair asymmetric after an accepted update (small scope)", repr(asym), r)
  ck.nontrivial_case("replay"); ck.nontrivial_case("replay2")
