"""
In-process driver of the real data engine (imported from /repo's current working tree).

* `Doc`     : a live Engine + helpers (apply a bundle, snapshot all tables as canonical tokens,
              dump the engine's schema, read metadata).
* recorder  : run-time wrappers (no source hooks) that emit the *step word* of a bundle:
                ["doc", action_repr, direct, n_undo_appended]   UserActions._do_doc_action
                ["calc", table, col, [[row, before, after]..]]  ActionSummary.add_changes (outside DocActions methods)
                ["flushcol", table, col]                         ActionGroup.flush_calc_changes_for_column
                ["rollback", len_stored, len_undo, len_ret]      Engine._undo_to_checkpoint
                ["ret", value]  / ["finish"]
* `PyReplica`: an independent doc-action interpreter (what Node/SQLite does with `stored`).
"""
import copy
import json
import logging
import math
import sys

logging.disable(logging.CRITICAL)

import actions            # noqa: E402  (repo)
import action_obj         # noqa: E402
import action_summary     # noqa: E402
import docactions         # noqa: E402
import engine as engine_mod   # noqa: E402
import objtypes           # noqa: E402
import schema as schema_mod   # noqa: E402
import useractions        # noqa: E402

# --------------------------------------------------------------------------- canonical tokens

def fcanon(x):
  if math.isnan(x):
    return "nan"
  if math.isinf(x):
    return "inf" if x > 0 else "-inf"
  if x == int(x) and abs(x) < 2 ** 62:
    return "%d.0" % int(x)
  return repr(x)


def _nest(ev):
  if isinstance(ev, bool) or ev is None or isinstance(ev, str):
    return ev
  if isinstance(ev, int):
    return ev
  if isinstance(ev, float):
    return {"__f": fcanon(ev)}
  if isinstance(ev, (list, tuple)):
    return [_nest(x) for x in ev]
  if isinstance(ev, dict):
    return {str(k): _nest(v) for k, v in ev.items()}
  return {"__repr": repr(ev)}


def tok(ev):
  """Token of an ENCODED cell value (exact: keeps int/float distinction)."""
  if ev is None or isinstance(ev, bool):
    return ev
  if isinstance(ev, int):
    return "i%d" % ev
  if isinstance(ev, float):
    return "f" + fcanon(ev)
  if isinstance(ev, str):
    return "s" + ev
  return "o" + json.dumps(_nest(ev), sort_keys=True)


def tokv(v):
  """Token of a raw (decoded) python cell value."""
  return tok(objtypes.encode_object(v))


def ntok(t):
  """Normalise a token the way equal_encoding compares: integral floats == ints."""
  if isinstance(t, str) and t.startswith("f") and t.endswith(".0"):
    body = t[1:-2]
    if body.lstrip("-").isdigit():
      return "i" + body
  return t


def tok_action(arepr):
  """Canonical JSON form of an action repr (values replaced by tokens)."""
  name = arepr[0]
  if name in ("AddRecord", "UpdateRecord"):
    return [name, arepr[1], arepr[2], {k: tok(v) for k, v in sorted(arepr[3].items())}]
  if name in ("BulkAddRecord", "BulkUpdateRecord", "ReplaceTableData", "TableData"):
    return [name, arepr[1], list(arepr[2]), {k: [tok(x) for x in v] for k, v in sorted(arepr[3].items())}]
  if name in ("RemoveRecord",):
    return [name, arepr[1], arepr[2]]
  if name in ("BulkRemoveRecord",):
    return [name, arepr[1], list(arepr[2])]
  if name in ("AddColumn", "ModifyColumn"):
    return [name, arepr[1], arepr[2], _colinfo(arepr[3])]
  if name == "AddTable":
    return [name, arepr[1], [_colinfo(c) for c in arepr[2]]]
  return list(arepr)


def _colinfo(ci):
  out = {}
  for k, v in sorted(ci.items()):
    out[k] = v
  return out


def norm_action(ta):
  """equal_encoding-normalised version of a tokenised action (for comparing value content)."""
  name = ta[0]
  if name in ("AddRecord", "UpdateRecord"):
    return [name, ta[1], ta[2], {k: ntok(v) for k, v in ta[3].items()}]
  if name in ("BulkAddRecord", "BulkUpdateRecord", "ReplaceTableData"):
    return [name, ta[1], ta[2], {k: [ntok(x) for x in v] for k, v in ta[3].items()}]
  return ta

# --------------------------------------------------------------------------- recorder

class Recorder(object):
  active = None      # the list receiving steps, or None
  in_da_method = 0   # >0 while inside a DocActions.* method (its own summary writes are part of the doc step)
  fault = None       # optional callable(site, info) that may raise (fault injection)
  counters = {}

REC = Recorder()
_installed = []


class InjectedFault(Exception):
  pass


def _emit(step):
  if REC.active is not None:
    REC.active.append(step)


def install_wrappers():
  """Wrap the engine's methods at class level (idempotent).  If a wrapping point has disappeared
  the harness cannot observe and says so (ImportError/AttributeError -> infrastructure failure)."""
  if _installed:
    return
  UA = useractions.UserActions
  orig_do = UA._do_doc_action

  def _do_doc_action(self, action):
    if hasattr(action, 'simplify'):
      action = action.simplify()
    if action:
      eng = self._engine
      direct = (self._indirection_level == useractions.DIRECT_ACTION)
      n_undo = len(eng.out_actions.undo)
      step = ["doc", tok_action(actions.get_action_repr(action)), direct, None]
      _emit(step)
      # no fault sites inside formula evaluation (doc actions issued by lookupOrAddDerived while the
      # update loop runs): the engine turns an exception there into a cell error, the bundle does
      # not raise, and the injected error value would stay in the document
      in_formula = bool(getattr(eng, "_in_update_loop", False))
      if REC.fault and not in_formula:
        try:
          REC.fault("doc-entry", step)
        except BaseException:
          step[3] = "fault-entry"     # nothing happened yet: stored/direct not appended
          raise
      try:
        orig_do(self, action)
      except BaseException:
        step[3] = "raised"
        raise
      # undo entries appended by the DocActions method itself come first; nested steps record their own
      step[3] = "ok"
      if REC.fault and not in_formula:
        REC.fault("doc-exit", step)
  UA._do_doc_action = _do_doc_action

  # DocActions methods: mark "inside", so add_changes from RemoveColumn etc. is not double-emitted
  for name in list(actions.action_types):
    if name == "TableData" or not hasattr(docactions.DocActions, name):
      continue
    def mk(orig, name):
      def wrapped(self, *a, **kw):
        REC.in_da_method += 1
        try:
          return orig(self, *a, **kw)
        finally:
          REC.in_da_method -= 1
      wrapped.__name__ = name
      return wrapped
    setattr(docactions.DocActions, name, mk(getattr(docactions.DocActions, name), name))

  AS = action_summary.ActionSummary
  orig_add = AS.add_changes

  def add_changes(self, table_id, col_id, changes):
    changes = list(changes)
    if REC.active is not None and not REC.in_da_method and getattr(self, "_gx_main", False):
      _emit(["calc", table_id, col_id, [[r, tokv(b), tokv(a)] for (r, b, a) in changes]])
    return orig_add(self, table_id, col_id, changes)
  AS.add_changes = add_changes

  AG = action_obj.ActionGroup
  orig_flushcol = AG.flush_calc_changes_for_column

  def flush_calc_changes_for_column(self, table_id, col_id):
    _emit(["flushcol", table_id, col_id])
    return orig_flushcol(self, table_id, col_id)
  AG.flush_calc_changes_for_column = flush_calc_changes_for_column

  orig_init = AG.__init__

  def ag_init(self):
    orig_init(self)
    self.summary._gx_main = True
  AG.__init__ = ag_init

  orig_flush = AG.flush_calc_changes

  def flush_calc_changes(self):
    _emit(["finish"])
    r = orig_flush(self)
    self.summary._gx_main = True
    return r
  AG.flush_calc_changes = flush_calc_changes

  E = engine_mod.Engine
  orig_undo_to = E._undo_to_checkpoint

  def _undo_to_checkpoint(self, checkpoint):
    new_cp = self._get_undo_checkpoint()
    if new_cp != checkpoint:
      _emit(["rollback", checkpoint[1], checkpoint[2], checkpoint[3]])
    saved = REC.fault
    REC.fault = None         # no injected faults while reverting
    try:
      return orig_undo_to(self, checkpoint)
    finally:
      REC.fault = saved
      if new_cp != checkpoint:
        _emit(["rollback-done"])
  E._undo_to_checkpoint = _undo_to_checkpoint

  orig_rebuild = E.rebuild_usercode

  def rebuild_usercode(self):
    if REC.fault and REC.active is not None:
      REC.fault("usercode", None)
    return orig_rebuild(self)
  E.rebuild_usercode = rebuild_usercode
  _installed.append(True)


class FaultAt(object):
  """Raise InjectedFault at the k-th fault-site event of a bundle (sites: entry and exit of every
  doc action performed through _do_doc_action, entry of every rebuild_usercode)."""
  def __init__(self, k, kinds=("doc-entry", "doc-exit", "usercode")):
    self.k = k
    self.n = 0
    self.fired = None
    self.kinds = kinds

  def __call__(self, site, info):
    if site not in self.kinds:
      return
    if sys.exc_info()[0] is not None:
      return       # single-fault model: no site inside error-recovery code of another failure
    if self.n == self.k and self.fired is None:
      self.fired = (site, (info[1][0] if info else None))
      self.n += 1
      raise InjectedFault("injected at site %d (%s %s)" % (self.k, site, self.fired[1]))
    self.n += 1


# --------------------------------------------------------------------------- Doc

class BundleResult(object):
  __slots__ = ("ok", "stored", "undo", "direct", "ret", "error", "steps", "raw_stored", "raw_undo")


class Doc(object):
  def __init__(self, init=True):
    install_wrappers()
    self.engine = engine_mod.Engine()
    self.engine.load_empty()
    self.history = []       # list of user-action bundles (reprs) applied successfully
    if init:
      r = self.apply([["InitNewDoc"]])
      assert r.ok, r.error

  def apply(self, user_actions, record=True):
    """Apply one bundle (list of user-action reprs). Never raises for engine errors."""
    res = BundleResult()
    steps = [] if record else None
    REC.active = steps
    try:
      # the engine mutates its input in place (e.g. AddTable inserts manualSort): apply a copy
      uas = [useractions.from_repr(ua) for ua in copy.deepcopy(user_actions)]
      ag = self.engine.apply_user_actions(uas)
      rep = ag.get_repr()
      res.ok = True
      res.raw_stored = rep["stored"]
      res.raw_undo = rep["undo"]
      res.stored = [tok_action(a) for a in rep["stored"]]
      res.undo = [tok_action(a) for a in rep["undo"]]
      res.direct = list(rep["direct"])
      res.ret = rep["retValues"]
      res.error = None
      self.history.append(user_actions)
    except InjectedFault as e:
      res.ok = False
      res.error = ("InjectedFault", str(e))
      res.stored = res.undo = res.direct = res.ret = res.raw_stored = res.raw_undo = None
    except Exception as e:    # engine rejected the bundle
      res.ok = False
      res.error = (type(e).__name__, str(e).split("\n")[0][:200])
      res.stored = res.undo = res.direct = res.ret = res.raw_stored = res.raw_undo = None
    finally:
      REC.active = None
    res.steps = steps
    return res

  # ---- observation (read-only)
  def table_ids(self):
    return sorted(self.engine.tables.keys())

  def snapshot(self, norm=False, tables=None):
    """{table: {"ids": [...], "cols": {col: [tokens]}}} for every table, metadata included.
    Tokens are exact (int/float kept apart); comparisons normalise with ntok."""
    out = {}
    f = ntok if norm else (lambda x: x)
    for tid in (tables or self.table_ids()):
      td = self.engine.fetch_table(tid, formulas=True)
      out[tid] = {"ids": list(td.row_ids),
                  "cols": {c: [f(tokv(v)) for v in vals] for c, vals in td.columns.items()}}
    return out

  def engine_schema(self):
    out = {}
    for tid, t in self.engine.schema.items():
      out[tid] = {cid: [c.type, bool(c.isFormula), c.formula, getattr(c, "reverseColId", 0)]
                  for cid, c in t.columns.items()}
    return out

  def meta_schema(self):
    mt = self.engine.fetch_table('_grist_Tables')
    mc = self.engine.fetch_table('_grist_Tables_column')
    try:
      gen = schema_mod.build_schema(mt, mc)
    except KeyError as e:
      # a _grist_Tables record without any column record (metadata broken, e.g. after a rollback that aborted):
      # build_schema cannot build a schema at all; report that as a schema that matches nothing
      return {"<metadata unusable: build_schema raised KeyError %s>" % (e,): {}}
    out = {}
    for tid, t in gen.items():
      out[tid] = {cid: [c.type, bool(c.isFormula), c.formula, getattr(c, "reverseColId", 0)]
                  for cid, c in t.columns.items()}
    return out

  def user_tables(self):
    return [t for t in self.table_ids() if not t.startswith("_grist_")]

  def meta(self, table_id):
    """List of dict records of a metadata table (decoded values)."""
    td = self.engine.fetch_table(table_id, formulas=True)
    cols = td.columns
    return [dict([("id", r)] + [(c, cols[c][i]) for c in cols]) for i, r in enumerate(td.row_ids)]


def numeric_drift(a, b):
  """Cells (table, row, col) whose exact tokens differ only in int-vs-float (equal encodings)."""
  out = []
  for t in a:
    if t not in b or a[t]["ids"] != b[t]["ids"]:
      continue
    for c, va in a[t]["cols"].items():
      vb = b[t]["cols"].get(c)
      if vb is None or va == vb:
        continue
      for i, r in enumerate(a[t]["ids"]):
        if va[i] != vb[i] and ntok(va[i]) == ntok(vb[i]):
          out.append((t, r, c, va[i], vb[i]))
  return out


def diff_snapshots(a, b, limit=6):
  """List of human-readable differences between two snapshots."""
  out = []
  for t in sorted(set(a) | set(b)):
    if t not in a:
      out.append("table %s only in second" % t); continue
    if t not in b:
      out.append("table %s only in first" % t); continue
    ta, tb = a[t], b[t]
    if ta["ids"] != tb["ids"]:
      out.append("table %s row ids %r vs %r" % (t, ta["ids"][:12], tb["ids"][:12]))
      continue
    for c in sorted(set(ta["cols"]) | set(tb["cols"])):
      if c not in ta["cols"]:
        out.append("column %s.%s only in second" % (t, c)); continue
      if c not in tb["cols"]:
        out.append("column %s.%s only in first" % (t, c)); continue
      if ta["cols"][c] != tb["cols"][c]:
        for i, r in enumerate(ta["ids"]):
          if ntok(ta["cols"][c][i]) != ntok(tb["cols"][c][i]):
            out.append("cell %s[%s].%s: %r vs %r" % (t, r, c, ta["cols"][c][i], tb["cols"][c][i]))
            break
    if len(out) >= limit:
      break
  return out[:limit]


# --------------------------------------------------------------------------- independent replica

TYPE_DEFAULT_TOK = {   # the storage default of each Grist type (what SQLite / a client fills in)
  "Any": None, "Attachments": None, "Blob": None, "Bool": False, "Choice": "s", "ChoiceList": None,
  "Date": None, "DateTime": None, "Id": "i0", "Int": "i0", "ManualSortPos": "finf", "Numeric": "i0",
  "PositionNumber": "finf", "Ref": "i0", "RefList": None, "Text": "s",
}

def type_default(typ):
  return TYPE_DEFAULT_TOK.get((typ or "Any").split(":")[0], None)


class PyReplica(object):
  """Independent doc-action interpreter over tokens: what a client / SQLite does with `stored`.
  A new row's omitted cells, and a new column's cells, get the column type's storage default at
  that moment.  Unknown tables/columns/rows in record actions are reported (ghost data)."""
  def __init__(self):
    self.tables = {}    # tid -> {"cols": {cid: {row: tok}}, "rows": set, "types": {cid: type}}
    self.problems = []

  def _t(self, tid, act):
    t = self.tables.get(tid)
    if t is None:
      self.problems.append("%s on unknown table %s" % (act, tid))
    return t

  def apply(self, ta):
    name = ta[0]
    getattr(self, "_" + name)(*ta[1:])

  def _AddTable(self, tid, cols):
    if tid in self.tables:
      self.problems.append("AddTable existing %s" % tid)
    self.tables[tid] = {"cols": {c["id"]: {} for c in cols}, "rows": set(),
                        "types": {c["id"]: c.get("type") for c in cols}}

  def _RemoveTable(self, tid):
    if self._t(tid, "RemoveTable") is not None:
      del self.tables[tid]

  def _RenameTable(self, old, new):
    if self._t(old, "RenameTable") is not None:
      if new in self.tables:
        self.problems.append("RenameTable onto existing %s" % new)
      self.tables[new] = self.tables.pop(old)

  def _AddColumn(self, tid, cid, info):
    t = self._t(tid, "AddColumn")
    if t is not None:
      if cid in t["cols"]:
        self.problems.append("AddColumn existing %s.%s" % (tid, cid))
      t["types"][cid] = info.get("type")
      d = type_default(info.get("type"))
      t["cols"][cid] = {r: d for r in t["rows"]}

  def _RemoveColumn(self, tid, cid):
    t = self._t(tid, "RemoveColumn")
    if t is not None:
      if cid not in t["cols"]:
        self.problems.append("RemoveColumn missing %s.%s" % (tid, cid))
      t["cols"].pop(cid, None)
      t["types"].pop(cid, None)

  def _RenameColumn(self, tid, old, new):
    t = self._t(tid, "RenameColumn")
    if t is not None:
      if old not in t["cols"]:
        self.problems.append("RenameColumn missing %s.%s" % (tid, old)); return
      if new in t["cols"]:
        self.problems.append("RenameColumn onto existing %s.%s" % (tid, new))
      t["cols"][new] = t["cols"].pop(old)
      t["types"][new] = t["types"].pop(old, None)

  def _ModifyColumn(self, tid, cid, info):
    t = self._t(tid, "ModifyColumn")
    if t is not None and cid not in t["cols"]:
      self.problems.append("ModifyColumn missing %s.%s" % (tid, cid))
    elif t is not None and "type" in info:
      t["types"][cid] = info["type"]

  def _BulkAddRecord(self, tid, rows, cols):
    t = self._t(tid, "AddRecord")
    if t is None:
      return
    for r in rows:
      if r in t["rows"]:
        self.problems.append("AddRecord existing row %s[%s]" % (tid, r))
      if not isinstance(r, int) or r <= 0:
        self.problems.append("AddRecord bad row id %s[%r]" % (tid, r))
    if len(set(rows)) != len(rows):
      self.problems.append("AddRecord repeated row id in %s %r" % (tid, rows))
    t["rows"].update(rows)
    for c in t["cols"]:
      if c not in cols:
        d = type_default(t["types"].get(c))
        for r in rows:
          t["cols"][c][r] = d
    for c, vals in cols.items():
      if c not in t["cols"]:
        self.problems.append("AddRecord unknown column %s.%s" % (tid, c)); continue
      for r, v in zip(rows, vals):
        t["cols"][c][r] = v

  def _AddRecord(self, tid, row, cols):
    self._BulkAddRecord(tid, [row], {c: [v] for c, v in cols.items()})

  def _BulkUpdateRecord(self, tid, rows, cols):
    t = self._t(tid, "UpdateRecord")
    if t is None:
      return
    for r in rows:
      if r not in t["rows"]:
        self.problems.append("UpdateRecord missing row %s[%s]" % (tid, r))
    for c, vals in cols.items():
      if c not in t["cols"]:
        self.problems.append("UpdateRecord unknown column %s.%s" % (tid, c)); continue
      for r, v in zip(rows, vals):
        if r in t["rows"]:
          t["cols"][c][r] = v

  def _UpdateRecord(self, tid, row, cols):
    self._BulkUpdateRecord(tid, [row], {c: [v] for c, v in cols.items()})

  def _BulkRemoveRecord(self, tid, rows):
    t = self._t(tid, "RemoveRecord")
    if t is None:
      return
    for r in rows:
      # removing an absent row is a no-op for every interpreter (SQL DELETE, TableDataSet,
      # DocActions.BulkRemoveRecord "ignore records that don't exist"): counted, not a problem
      if r not in t["rows"]:
        self.lenient_remove_missing = getattr(self, "lenient_remove_missing", 0) + 1
      t["rows"].discard(r)
      for c in t["cols"].values():
        c.pop(r, None)

  def _RemoveRecord(self, tid, row):
    self._BulkRemoveRecord(tid, [row])

  def _ReplaceTableData(self, tid, rows, cols):
    t = self._t(tid, "ReplaceTableData")
    if t is None:
      return
    t["rows"] = set()
    for c in t["cols"]:
      t["cols"][c] = {}
    self._BulkAddRecord(tid, rows, cols)

  def compare(self, snap, defaults=None):
    """Differences between the replica and an engine snapshot (normalised tokens)."""
    out = []
    for tid in sorted(set(self.tables) | set(snap)):
      if tid not in snap:
        out.append("replica has table %s, engine does not" % tid); continue
      if tid not in self.tables:
        out.append("engine has table %s, replica does not (no stored action created it)" % tid); continue
      t, s = self.tables[tid], snap[tid]
      if sorted(t["rows"]) != s["ids"]:
        out.append("table %s rows: replica %r engine %r" % (tid, sorted(t["rows"])[:12], s["ids"][:12])); continue
      for cid in sorted(set(t["cols"]) | set(s["cols"])):
        if cid == "id":
          continue
        if cid not in s["cols"]:
          out.append("replica has column %s.%s, engine does not" % (tid, cid)); continue
        if cid not in t["cols"]:
          out.append("engine has column %s.%s, replica does not" % (tid, cid)); continue
        col = t["cols"][cid]
        d = None
        for i, r in enumerate(s["ids"]):
          v = ntok(col[r]) if r in col else "<no cell>"
          if v != ntok(s["cols"][cid][i]):
            out.append("cell %s[%s].%s: replica %r engine %r" % (tid, r, cid, v, s["cols"][cid][i]))
            break
      if len(out) > 6:
        break
    return out


# --------------------------------------------------------------------------- fresh engine (C05/C07)

def fresh_engine_from(doc, with_formula_values=False, via_marshal=False):
  """A new Engine loaded with the document's metadata and data columns only (no stored formula
  results unless with_formula_values), then `Calculate`.  Returns (Doc-like wrapper, calc result)."""
  import marshal
  src = doc.engine
  d2 = Doc.__new__(Doc)
  install_wrappers()
  d2.engine = engine_mod.Engine()
  d2.history = []
  def conv(td):
    if not via_marshal:
      return td
    # encode as in replies, marshal, decode the way load_table decodes DB values
    rep = actions.get_action_repr(td)
    rep = marshal.loads(marshal.dumps(rep))
    return actions.TableData(rep[1], rep[2], actions.decode_bulk_values(rep[3], _decode_db_value))
  mt = conv(src.fetch_table('_grist_Tables', formulas=True))
  mc = conv(src.fetch_table('_grist_Tables_column', formulas=True))
  d2.engine.load_meta_tables(mt, mc)
  for tid in sorted(src.tables):
    if tid in ('_grist_Tables', '_grist_Tables_column'):
      continue
    d2.engine.load_table(conv(src.fetch_table(tid, formulas=with_formula_values)))
  res = d2.apply([["Calculate"]], record=False)
  return d2, res


def _decode_db_value(v):
  import main as main_mod   # the repo's sandbox entry module
  f = getattr(main_mod, "_decode_db_value", None)
  if f is None:
    raise ImportError("main._decode_db_value not found")
  return f(v)


# --------------------------------------------------------------------------- C36 engine level

def c36_pages(ck, valid_tree):
  """Removing page records goes through useractions._removePageRecords, which applies
  treeview.fix_indents to the remaining pages: the remaining pages must form a valid tree."""
  rng = ck.rng
  n_docs = 6 if ck.tier == "quick" else 60
  for _ in range(n_docs):
    doc = Doc()
    n = rng.randint(2, 7)
    for i in range(n):
      doc.apply([["AddTable", "P%d" % i, [{"id": "a", "type": "Int", "isFormula": False, "formula": ""}]]])
    pages = sorted(doc.meta("_grist_Pages"), key=lambda p: p["pagePos"])
    ids = [p["id"] for p in pages]
    cur = 0
    inds = []
    for k in range(len(ids)):
      cur = 0 if k == 0 else max(0, min(cur + rng.choice([-2, -1, 0, 1, 1]), cur + 1))
      inds.append(cur)
    r = doc.apply([["BulkUpdateRecord", "_grist_Pages", ids, {"indentation": inds}]])
    if not r.ok:
      continue
    for _round in range(3):
      pages = sorted(doc.meta("_grist_Pages"), key=lambda p: p["pagePos"])
      if len(pages) < 2:
        break
      gone = rng.sample([p["id"] for p in pages], rng.randint(1, max(1, len(pages) // 2)))
      before = [(p["id"], p["indentation"]) for p in pages]
      r = doc.apply([["BulkRemoveRecord", "_grist_Pages", gone]])
      ck.evaluated()
      if not r.ok:
        ck.count("engine_page_removal_rejected")
        continue
      after = sorted(doc.meta("_grist_Pages"), key=lambda p: p["pagePos"])
      levels = [p["indentation"] for p in after]
      ck.count("engine_page_removals")
      if not valid_tree(levels):
        ck.violation("remaining pages are not a valid tree (through RemoveRecord on _grist_Pages)",
                     "before %r removed %r after %r" % (before, gone, [(p["id"], p["indentation"]) for p in after]),
                     {"engine_level": True, "before": before, "removed": gone})
      old = dict(before)
      for p in after:
        if p["indentation"] > old.get(p["id"], p["indentation"]):
          ck.violation("page made deeper by a removal (engine level)", "%r" % (p,), {"before": before, "removed": gone})
