NOT_APPLICABLE = {}

def register(reg):
  reg("C36", "proof",
      "fix_indents is modelled exactly (a 6-line fold); fix_valid/fix_never_deeper/fix_step/fix_greatest/fix_noop_of_valid "
      "are proved for all page lists and removal sets; the model is diffed with treeview.fix_indents on an exhaustive "
      "small scope plus random lists, and the property clauses are evaluated on the real outputs.",
      "page ids distinct; indentations non-negative ints; engine-level path (_removePageRecords) exercised by histories.",
      "Lean 4 theorem by induction over the page list + differential correspondence")

  reg("C21", "proof",
      "identifiers.py is modelled exactly after Unicode normalisation (regex substitutions, lstrip, prefixing, "
      "capitalisation, keyword loop, numeric suffix loop, the A..Z,AA.. generator, the batch loop). Proved for ALL "
      "strings and ALL avoid sets: every loop terminates (fuel |avoid|+1 resp. |keywords|+1 suffices, pigeonhole: "
      "add_suffix_terminates, gen_ident_fresh, sanitize_shape); pick_col_ident/pick_table_ident/pick_col_ident_list "
      "return ids of shape [A-Za-z][A-Za-z0-9_]* that are not keywords, whose upper-case form is not in the avoid "
      "set, table ids starting upper-case, batch ids pairwise different case-insensitively (pick_col_valid, "
      "pick_table_valid, pick_list_valid); valid unused names are returned unchanged (pick_col_fixpoint, "
      "pick_table_fixpoint, pick_list_fixpoint). Differentially validated only: that the model equals the real "
      "functions (all pick_* and helper functions on Unicode-heavy random inputs plus all strings <=3/4 over a small "
      "alphabet), and the property clauses re-evaluated on the real outputs with str.isidentifier/keyword.iskeyword.",
      "Parameters (computed by the harness with the same stdlib calls, not modelled): NFKD normalisation + removal of "
      "combining characters, str.upper on the avoid set (idempotence re-validated over all code points every run), "
      "keyword.kwlist (regenerated into lean/Generated/Keywords.lean every run; proofs need only: no keyword ends "
      "in a digit or is all upper-case, re-proved by decide). 'Valid' = ASCII identifier shape; 'case-insensitive' "
      "= equality of str.upper forms (differs from casefold only for non-ASCII existing names such as U+212A). "
      "Engine-level use (AddColumn/AddTable) exercised separately.",
      "Lean 4 theorems (induction + pigeonhole termination) + differential correspondence + direct oracle")
