NOT_APPLICABLE = {}

def register(reg):
  reg("C36", "proof",
      "fix_indents is modelled exactly (a 6-line fold); fix_valid/fix_never_deeper/fix_step/fix_greatest/fix_noop_of_valid "
      "are proved for all page lists and removal sets; the model is diffed with treeview.fix_indents on an exhaustive "
      "small scope plus random lists, and the property clauses are evaluated on the real outputs. The caller "
      "(useractions._removePageRecords: which page records it hands to fix_indents and in which order) is NOT modelled "
      "in Lean: it is judged by the direct oracle only, on live engines whose pages were moved / re-indented / "
      "re-parented / added out of order (pagePos order != row-id order) and then removed through RemoveRecord, "
      "BulkRemoveRecord, RemoveView, Remove/BulkRemoveRecord on _grist_Views and RemoveTable (fixed witnesses with "
      "literal outcomes, every permutation of <=3 pages and sampled 4-5, random documents; counters eng2_*); the "
      "engine's outcome is additionally compared with Grist.Treeview.applyFixes run on the pagePos-ordered list that "
      "the harness extracts.",
      "page ids distinct; indentations non-negative ints; engine level: list of pages = _grist_Pages records in "
      "pagePos order (distinct positions), removed set = records that disappeared, clauses demanded only of bundles "
      "that remove at least one page; pagePos sorting / filter_records / docmodel.remove cascades not modelled.",
      "Lean 4 theorem by induction over the page list + differential correspondence")

  reg("C21", "proof",
      "identifiers.py is modelled exactly after Unicode normalisation (regex substitutions, lstrip, prefixing, "
      "capitalisation, keyword loop, numeric suffix loop, the A..Z,AA.. generator, the batch loop). Proved for ALL "
      "strings and ALL avoid sets: every loop terminates (fuel |avoid|+1 resp. |keywords|+1 suffices, pigeonhole: "
      "add_suffix_terminates, gen_ident_fresh, sanitize_shape); pick_col_ident/pick_table_ident/pick_col_ident_list "
      "return ids of shape [A-Za-z][A-Za-z0-9_]* that are not keywords, whose upper-case form is not in the avoid "
      "set, table ids starting upper-case, batch ids pairwise different case-insensitively (pick_col_valid, "
      "pick_table_valid, pick_list_valid); valid unused names are returned unchanged (pick_col_fixpoint, "
      "pick_table_fixpoint, pick_list_fixpoint). Differentially validated only: that the model equals the real "
      "functions (all pick_* and helper functions on Unicode-heavy random inputs plus all strings <=3/4 over a small "
      "alphabet), and the property clauses re-evaluated on the real outputs with str.isidentifier/keyword.iskeyword. "
      "Judged by the direct oracle ONLY (not modelled in Lean): several names requested by one user action or bundle "
      "through the real engine (BulkUpdateRecord on _grist_Tables tableId / raw-section titles / _grist_Tables_column "
      "colId or label, bundles of RenameTable/AddTable/RenameColumn/AddColumn, AddTable with colliding columns, renames "
      "next to summary tables, BulkAddRecord on the column metadata) with requests sanitising to equal or "
      "case-insensitively equal ids: all ids valid, non-keyword, unique case-insensitively per scope, metadata = "
      "Engine.tables/Engine.schema, data reachable, untouched ids unchanged, valid unused names kept, and the action not "
      "rejected. The engine's bookkeeping of names picked earlier in the same action (avoid_tableid_set, avoid_colid_set, "
      "_pick_col_name) is tied to the model only per requested name, the avoid set being rebuilt by the harness.",
      "Parameters (computed by the harness with the same stdlib calls, not modelled): NFKD normalisation + removal of "
      "combining characters, str.upper on the avoid set (idempotence re-validated over all code points every run), "
      "keyword.kwlist (regenerated into lean/Generated/Keywords.lean every run; proofs need only: no keyword ends "
      "in a digit or is all upper-case, re-proved by decide). 'Valid' = ASCII identifier shape; 'case-insensitive' "
      "= equality of str.upper forms (differs from casefold only for non-ASCII existing names such as U+212A). "
      "Engine level: 16 fixed witnesses + 9 (thorough 80) generated documents x ~8 multi-name actions per run, "
      "requests str or None; a column name picked for another table in the same action counts as picked (counted); "
      "one recorded finding (BulkAddRecord on _grist_Tables_column stores colIds verbatim, creates no column).",
      "Lean 4 theorems (induction + pigeonhole termination) + differential correspondence + direct oracle")

  reg("C35", "proof",
      "schedule.py (parser recognisers, Delta, _round_down_to_unit, Schedule.series) and DATE of date.py are modelled over "
      "integer microseconds with proleptic-Gregorian civil arithmetic (daysFromCivil/civilFromDays round trips, month lengths "
      "28..31 and year>=1900 proved).  Proved for ALL starts/ends/counts: series_spec_fixed / series_spec_months / series_exact "
      "(result = first `count` elements, strictly increasing, of {unit boundary + k*interval + slot} inside [start,end], nothing "
      "skipped) for interval >= 1 and slots increasing inside one interval; boundary_fixed/boundary_monthly; termination within "
      "count+2 passes; parse_error_value_partial (a rejected string whose numeric fields are <= 10^7 is a ValueError); and the NEGATIONS with concrete witnesses for an interval of 0 units (never terminates), boundaries before "
      "1900 (DATE adds 1900) and OverflowError from large numerals.  Only differentially validated: that the hand-written model "
      "equals the Python (parsed structure, error class and generated times on structured, unordered, invalid, junk and exhaustive "
      "token streams), the ValueError class of invalid strings, zone-aware starts (oracle only).",
      "naive/UTC starts modelled; zone-aware starts oracle-only; ASCII strings; occurrences representable (year<=9999); "
      "theorem hypotheses: boundary >= 1900-01-01, interval >= 1; month-based slots proved for offsets < 28 days (others via the "
      "semantic precondition InOrder of series_exact). Four recorded findings (known_findings.json).",
      "Lean 4 theorems by induction over the generator loop + omega calendar arithmetic; differential correspondence; brute-force oracle")

  reg("C14", "proof",
      "SortKey.__lt__ (incl. the type-rank fallback), Python's bisect_left/right, RecordSet._at/_bisect_find/_find_eq, "
      "FindOps.lt/le/gt/ge/eq/previous/next/rank and PREVIOUS/NEXT/RANK/_sorted_lookup are modelled line by line "
      "(GristModel/SortedFind.lean). Proved for all inputs: bisect_left_spec/bisect_right_spec (index = number of elements "
      "strictly before / not after the probe, for any list sorted by any strict weak order), keyLt_strictWeakOrder "
      "(SortKey order is a strict weak order on None/bool/int/str keys with '-' flags), find_lt|le|gt|ge|eq_scan (each find "
      "op equals the linear scan of the ordered set under the same comparison, search values of any length), lookup_sorted / "
      "lookup_sorted_unique (the ordered group is the unique sorted permutation), previous_next_rank_spec (own index found "
      "because row id is the last sort component; neighbour / 1-based rank, asc and desc). Differentially validated only: "
      "that the model matches the real code - every case is run through a live engine (formula columns using find.*, "
      "PREVIOUS/NEXT/RANK, 9 order_by variants, with/without group_by) and through the compiled model, and an independent "
      "linear-scan oracle is evaluated on the engine's outputs.",
      "values None/bool/int/str (no floats/NaN, lists, dates); manualSort positions distinct integers; row ids distinct positive; "
      "tables <= 6 rows; thorough adds all key sequences of length <= 5 over [None, True, 1, 'a'] x 34 probes; lookup index "
      "maintenance and type conversion of lookup keys are not modelled (C13/C05).",
      "Lean 4 theorems (binary search over a prefix-closed predicate + lexicographic strict weak order) + differential correspondence through a live engine")

  reg("C40", "proof",
      "TreeConverter/parse_predicate_formula is modelled node for node on Python's own AST (Grist.Predicate.convert / "
      "parseFormula). Proved for all expressions and environments: convert_faithful / parse_faithful (evaluating the tree "
      "with the documented node semantics = evaluating the expression, same value or same error class), "
      "accepted_iff_supported + unsupported_rejected (a node kind outside the list anywhere in the expression makes the "
      "converter raise), tree_json_safe_iff / tree_json_safe_partial (tree is JSON iff all constants are JSON scalars; the "
      "full clause is false of the code: tree_json_safe_full_is_false, witness b'x' replayed), comment_node / "
      "comment_transparent / comment_stripped. Differentially validated only: that the model equals the real converter "
      "(Python ast of the text -> model vs parse_predicate_formula on generated formulas with trivia, a non-subset "
      "stream, odd constants) and that the model's operator semantics are Python's (eval of the text, an independent "
      "naive evaluator of the real tree, and an operator table over 36x36 values).",
      "parameters: Python's tokenizer/parser and the textual $x->rec.x replacement; tuples read as lists (visit_Tuple); "
      "value universe None/bool/int/float/str/list/records/len/str.lower/str.upper with float %, str %, identity of "
      "non-singletons and |int|>2^53 mixed with floats unmodelled; JS evaluator's And->boolean out of scope.",
      "Lean 4 theorems by mutual structural induction over the nested AST + differential correspondence")

  reg("C33", "proof",
      "import_json (dumps / Tables.add_row / _is_included / _dump_table / _transpose / first_available_key) is modelled on an own JSON "
      "inductive. Proved for all documents and all include/exclude options: one value per row in every dumped column and distinct "
      "table names (columns_equal_length, dumps_columns_equal_length, table_names_distinct); row ids are positions (ids_consecutive); "
      "the rows hold the input recursively -- scalars in the cell of their key, nested objects as sub-table rows referenced from the "
      "parent's cell, array elements as sub-table rows in order with the parent's reference as back-reference (import_stores_input, "
      "nested_ref, array_member_elems, array_parent_ref); exactly one row per top-level item / array element (addElems_rows_self, "
      "main_table_rows); per table the scalar cells are exactly the kept scalars of the values of that path in document order "
      "(scalars_once) and over all tables the multiset of scalar cells is that of the (kept) input scalars (cells_are_kept_scalars, "
      "cells_are_input_scalars); every key of a row is a dumped column carrying the rows' cells (dump_value_columns). Two dump-level "
      "clauses are false of the code and proved only in partial form with machine-checked counter-examples (backref_column_partial: "
      "key-path collisions give one back-reference column for parents in different tables; dump_shows_rows_partial: a table whose rows "
      "hold no cell is dumped without columns). Differentially validated: the model against import_json.dumps / parse_file on the full "
      "table structure (names, order, column ids, order, types, cells), and a literal append-then-fill variant of the model against "
      "the proved one; the property clauses are evaluated on the real output by an input-guided walk with exactly-once accounting.",
      "numbers opaque (int/float both Numeric), strings = Unicode scalar values, json.loads itself not modelled (its last-wins "
      "handling of repeated keys is), object keys are str; first_available_key's unbounded loop has fuel #columns+1 in the model "
      "(exhaustion would surface as a model error in the diff); two known findings are keyed by signature in known_findings.json.",
      "Lean 4 theorems by mutual induction over the JSON value (custom induction principle) + differential correspondence + direct oracle")

  reg("C37", "proof",
      "textbuilder.py (Patch, validate_patch, Text, Replacer incl. sorted()/offset tables/bisect_right, Combiner) is modelled "
      "line by line over Python ints and slices (negative indices, clamping, CPython's binary search). Proved for all texts, "
      "patch sets and builder trees: sorted() of a non-overlapping set is ascending (sorted_is_ascending); the Replacer's text "
      "= the patches applied directly (replacer_text_eq_applyPatches) and text outside patches is copied unchanged "
      "(only_patched_changed); positions/patches inside a copied segment map back to exactly the identical input characters "
      "(input_pos_exact, replacer_mapback_copied); Combiner: inside one part = shifted by the part's offset, spanning parts = "
      "ValueError, every accepted patch fits its part (combiner_inside, combiner_spanning_refused, combiner_accept_sound); "
      "nested trees by induction: a patch copied all the way down (relation Traces) comes back as the same characters of its "
      "leaf (tree_mapback_exact), every returned triple is a leaf with old_text = leaf slice (tree_mapback_sound), the Text "
      "assert / table indexing never fail (tree_mapback_never_asserts). The full 'every position of a copied segment maps "
      "back exactly' is FALSE at the right end of a segment followed by a pure deletion: negation proved with a witness "
      "(input_pos_exact_full_is_false, input_pos_at_deletion) and replayed on the real code (known finding). "
      "Differentially validated only: that the model equals the real classes (texts, constructor exceptions, every node's "
      "offset tables, every map_back_patch result) on exhaustive small scopes + random trees of depth <=4; the oracle "
      "(character provenance + round trip through the real code) is independent of the model.",
      "strings = sequences of Unicode scalar values; Text values = opaque tags; bytes parts of a Combiner are modelled "
      "(map-back into one raises AttributeError) but outside the property; make_regexp_patches / map_back_offset not covered.",
      "Lean 4 theorems (structural/mutual induction over patch lists and nested builder trees) + differential correspondence")

  reg("C20", "proof",
      "relabeling.py is transcribed ONCE, generically over the key type (GristModel/Relabel.lean). Proved for every lawful "
      "linear order: bisect_left_spec, group_insertions_spec (each request counted at bisect_left, i.e. before equal existing "
      "keys), ungroup_slot/ungroup_order (new keys handed out in request order, ties by request index), "
      "apply_adjustments_order, checker_sound + checker_complete (the neighbour-comparison checker validOutcome decides the clauses: existing "
      "order kept, all positions finite and pairwise distinct, placement before equal existing rows, request order), and "
      "prepare_inserts_partial (a normal return on which no _adjust_range/_adjust_all step ran satisfies all clauses, under "
      "stated get_range laws). ONLY differentially validated: the crowded-neighbourhood relabeling path and everything "
      "numeric - the same Lean code instantiated at Float is compared bit-for-bit (IEEE bit patterns, exception class, number "
      "of relabel steps) with relabeling.prepare_inserts on nextfloat chains, duplicates, +-inf, 0, negatives, 2^52/2^53 scale, "
      "subnormals and on multi-step histories; validOutcome (Lean) and an independent naive oracle (Python) judge every real "
      "outcome and corrupted outcomes. Totality is NOT proved: three classes of AssertionError on the unchanged tree are "
      "recorded in known_findings.json. ENGINE LEVEL (direct oracle only, no theorem): rows are added AND REPOSITIONED through "
      "user actions (AddRecord/BulkAddRecord/UpdateRecord/BulkUpdateRecord/ReplaceTableData/RemoveRecord/undo on manualSort, a "
      "user PositionNumber column and _grist_Views_section_field.parentPos) in adaptively crowded neighbourhoods and in loaded "
      "states of adjacent floats, so that relabeling adjusts OTHER existing rows while rows from anywhere in the order are moved; "
      "after every action an oracle independent of relabeling.py and of the model checks: all positions finite and distinct, "
      "untouched rows keep their relative order, every added/moved row sits where requested relative to the untouched rows, "
      "subjects keep request order, unnamed columns / rejected actions / removals / undo leave positions as they must. The glue "
      "PositionColumn.prepare_new_values + Engine.convert_action_values + doBulkUpdateRecord is NOT modelled in Lean; it is only "
      "tied differentially (Lean prepareInserts at Float + a Python index-to-row glue must reproduce the table bit-for-bit). "
      "Finding recorded from this level: a moved row whose computed position equals its old position is trimmed from the "
      "update while its own adjustment is applied, so it is not moved.",
      "existing keys sorted, no NaN; full clauses when existing positions are finite and pairwise distinct (weaker set for "
      "legacy duplicates/zero/negatives, +-inf existing only differential); float < assumed a linear order on non-NaN values; "
      "get_range laws (length, monotone, start <= k < end), begin+count+1 >= begin validated on the real functions each run; "
      "quick: ~7k cases + 9k checker evaluations + ~3k engine actions in ~30 scenarios (4 fixed witnesses); thorough: 16 worker "
      "processes. Engine scope: one user action per bundle, float/int/None requests, distinct row ids, <= ~160 rows.",
      "Lean 4 theorems over an abstract linear order + bit-for-bit differential of the Float instance + proved-sound checker on real outputs")

  reg("C32", "proof",
      "Everything import_csv._parse_open_file does after csv.reader (100-row sample, find_first_non_empty_row, "
      "column_count_modal, _is_header, expand_headers, the include-headers logic, get_table_data padding / zip truncation, "
      "empty-column removal) is modelled line by line (GristModel/CsvPost.lean). Proved for all row lists: "
      "columns_equal_length (unconditional), and under the decidable hypotheses noPreamble (first row reaches modal-1 "
      "non-empty cells; non-blank when headers are off) and noWideLate (no row after the sample wider than the sample): "
      "one_entry_per_data_row_partial, csv_cells_kept_partial (every non-blank data cell at its row in the column at its "
      "place among the kept columns), csv_headers_kept_partial. The full statement is REFUTED in Lean for each dropped "
      "hypothesis (101-row witness, title-row witness) and the witnesses are replayed on the real parse_file "
      "(known findings). Differentially validated only: model == parse_file on exhaustive small grids and random "
      "rectangular/ragged grids written by csv.writer with explicit dialects; the property clauses are evaluated on "
      "the real outputs; csv.reader/codecs line splitting is outside the model and checked by oracle (third known finding).",
      "parameters: rows yielded by csv.reader (driven like the importer: codecs.open + same options) and _is_numeric "
      "(float()/int()); cell conversion is identity because CSV cells are str (checked: type Any, str values); "
      "non-empty = has a non-whitespace character; full dialect + encoding utf-8 + headers setting explicit; NUM_ROWS absent.",
      "Lean 4 theorems over the post-reader model + refutation witnesses + differential correspondence")

  reg("C38", "proof",
      "Proof by regeneration: every run re-reads schema.py/usertypes.py (by import) and schema.ts/gristTypes.ts (two small "
      "parsers) under the GRIST_REPO root, rewrites lean/Generated/*.lean and the kernel re-checks, for the tree as it is, "
      "schema_ts_matches_python (version, tables, columns, types and SchemaTypes = get_ts_type, in order), "
      "schema_ts_text_matches (the file's text is the modelled generator's output), defaults_agree and "
      "defaults_agree_everywhere (getDefaultForType = get_type_default on every type string). Proved for all inputs: "
      "agree_iff / agree_lookup (the Boolean check is exactly the column-by-column and by-name specification), "
      "tsTypeOf_suffix, tsDefault_suffix, defaultsAgree_sound / defaultsAgree_total. Differentially validated only: the "
      "model of gen_js_schema.main()/get_ts_type against the REAL generator (real tree byte-for-byte, plus seeded random "
      "schemas run through the real main() with a stub schema module), usertypes.get_type_default against pyDefault, the "
      "TS parsers against the generator's fresh output, round trips and node's evaluation of the literals. The direct oracle "
      "(real generator stdout == schema.ts; real get_type_default vs parsed _defaultValues per type; type-class instance "
      "defaults) names the differing table/column/type.",
      "trusted: translate.py readers/parsers/emitters (small; cross-checked as above) and the 3-line model of "
      "getDefaultForType/extractTypeFromColType (TypeScript is not executed); defaults compared as cell values "
      "(None=null, 0==0.0, inf==Number.POSITIVE_INFINITY); the SQLite text of _defaultValues is out of scope.",
      "Lean 4 proof by regeneration (decide +kernel on generated data + general soundness lemmas) + differential correspondence")

  reg("C01", "proof",
      "The 13 doc actions of docactions.py, the undo action(s) each appends, ActionSummary and the calc flush are "
      "modelled (GristModel/Doc.lean, Engine.lean). Proved for ALL documents / actions: every doc action preserves "
      "well-formedness and cell normal form (docAction_WF_partial, docAction_Normal); replaying the undo of ANY single "
      "doc action restores the document observationally (docAction_undo_partial: all 11 constructors; unconditional "
      "for bulkAdd/addColumn/renameColumn/addTable/renameTable); congruence under observational equality "
      "(docAction_congr); and for any list of doc actions the concatenated undo list replayed in reverse restores the "
      "starting document (runActs_undo_partial, runActs_undo_safe) = stage (i) of DESIGN A.1 (doc-action words). "
      "Partial: words with calc deltas (formula results restored by the ActionSummary flush) are covered by the "
      "correspondence only; the named side conditions (undoExact: ReplaceTableData / RemoveColumn of non-default "
      "formula columns, ModifyColumn type changes) are exactly where the engine relies on that flush. "
      "bulkUpdate_undo_needs_Normal is a machine-checked counterexample showing the Normal hypothesis is necessary. "
      "Every bundle (incl. undo/redo bundles) of every generated history is replayed through the model step by step: "
      "model stored/undo/direct lists and document must equal the engine's; the direct oracle undoes every bundle on "
      "the real engine and compares all tables (metadata included).",
      "user formulas = deterministic programs over cells read; private/virtual columns not modelled; documents "
      "compared by canonical encodings; why the engine emits a particular step word (useractions.py) is not modelled, "
      "the word is taken from the run (run-time wrappers).",
      "Lean 4 theorems (undo algebra of doc actions, list induction) + step-word refinement check + direct oracle")

  reg("C02", "proof",
      "On the same EngineModel: stored_faithful_docwords (for every word of doc steps, replaying the emitted stored "
      "actions from the starting document gives exactly the engine-model document), docAction_doc_indep_summary, the "
      "ActionSummary algebra (addChange keeps the first `before` and the last `after`; presence maps of added / "
      "removed rows), calc_word_emits / stored_faithful_calc_word (a word of calc deltas + finish emits one "
      "BulkUpdateRecord carrying exactly the rows whose merged before/after differ and their last values, and replaying "
      "it reproduces the document), stored_faithful_calc_fixed_schema (interleaved record actions on other tables). "
      "Partial: calc deltas interleaved with schema actions/renames/removals on the same table are validated by the "
      "correspondence only. Tie: an independent replica session of the Lean model and an independent Python "
      "interpreter see ONLY the stored lists of every bundle since InitNewDoc and must equal engine.fetch_table of "
      "every table; every calc delta's `before` must equal the model's cell (no change without an action).",
      "as C01; hypotheses of the calc theorems (hstrict/hnorm/hbefore) are stated in the theorems and correspond to "
      "the int/float drift known finding.",
      "Lean 4 theorems (stored replay = document) + replica refinement check + independent interpreter oracle")

  reg("C31", "proof",
      "direct_parallel_step / _run / _rollback: stored and direct stay the same length under every step kind incl. "
      "rollback and finish; flush_marks_nondirect(_finish/_flushcol): everything a calc flush appends is marked "
      "non-direct; doc_step_marks_given_flag; direct_true_only_from_direct_doc_step, direct_actions_are_direct_doc_steps, "
      "direct_true_count: a `true` flag sits exactly on actions appended by a doc step performed at indirection "
      "level 0. Tie: the model's direct list equals the engine's for every bundle. Search: independent classification "
      "of every stored action of record-edit bundles (formula-only updates, summary-table row maintenance and column "
      "conversion while entering data must be non-direct; the requested edit on a user table must be direct; for an "
      "upsert the requested edit is the rows its return value reports as added / updated). Bundles in which a "
      "summary-table helper formula is evaluated in the MIDDLE of the bundle - an [Bulk]AddOrUpdateRecord whose "
      "`require` key is a formula column reading a summary table, after an edit of the same bundle moved / added "
      "source rows into groups without a summary row - are produced on every run by witness histories (group-by "
      "Text / Int / ChoiceList / two columns, upsert on the source table or on another table) and by the generator "
      "kinds c31_mid_setup / c31_mid_upsert; they are judged by the direct oracle ONLY (counters mid_witness_bundles, "
      "summary_row_added_mid_bundle*, upsert_keyed_on_formula_column*, upsert_requested_edits_judged).",
      "which code runs inside `with indirect_actions()` (useractions/summary/docmodel) is observed through the "
      "recorded flag of each doc step, not modelled: the model agrees with the engine whatever flag a mid-bundle "
      "summary row carries, so only the direct oracle can fault it. On the unchanged tree such bundles also drop "
      "the calc deltas of the cells evaluated mid-bundle from `stored` (a C02 matter, counted in "
      "other_property_findings_ignored, not judged by C31).",
      "Lean 4 invariant over step words + refinement check + independent classification oracle")

  reg("C03", "proof",
      "redo_after_undo_partial / redo_after_undo_engine_partial: for every list of doc actions accepted from a "
      "well-formed, normal document, replaying the undo list in reverse and then the stored actions again yields a "
      "document observationally equal to the post-bundle one (from C01's runActs_undo_partial, C02's "
      "runActs_doc_eq_applyAll and the congruence applyAll_congr'); undo_then_redo_invariants. Partial: same side "
      "conditions as C01 (undoExactRun); that the engine's recalculation after re-applying `stored` lands on the same "
      "formula values is C05's fixpoint theorem. Tie: the undo and redo bundles of every history bundle are step words "
      "replayed through the model. Search: undo then ApplyDocActions(stored) on the real engine, all tables compared.",
      "as C01.", "Lean 4 theorems (undo/redo algebra) + step-word refinement check + direct oracle")

  reg("C04", "proof",
      "C04.rollback_restores / rollback_restores_after_failed_step: for every accepted word of doc steps (and a failing "
      "last step), Engine._undo_to_checkpoint as modelled (`rollback`: replay undo[cp:] reversed as doc steps, truncate) "
      "returns a document observationally equal to the one at the checkpoint and stored/direct/undo exactly as at the "
      "checkpoint; rollback_lists_exact for any state; C08.rollback_schema_consistent. Fault model: fault enumeration on "
      "the real engine - every bundle re-run with an exception injected at each doc-action entry, doc-action exit and "
      "rebuild_usercode entry (first 10 sites, then every third) plus natural failures of a malformed stream; each "
      "faulted run is replayed through the model (rollback must replay exactly undo[cp:] reversed; afterwards lists empty "
      "and documents equal). Search: all tables equal the pre-call snapshot, schema consistent, following Calculate "
      "emits nothing.",
      "no fault site between two cell writes of one record action; faults swallowed inside formula evaluation do not make "
      "the bundle raise; partial application inside a raising doc action is not modelled (model applies nothing for it "
      "and the post-rollback documents are compared).",
      "Lean 4 theorem (rollback algebra) + fault enumeration with step-word refinement + direct oracle")

  reg("C08", "proof",
      "GristModel/SchemaMeta.lean defines metaSchema (build_schema of _grist_Tables/_grist_Tables_column), userSchema and "
      "SchemaConsistent with a proved-correct decision procedure (schemaConsistentB_correct). Proved: invariance under "
      "observational equality (schemaConsistent_same_invariant), neutral_step(s)_consistent (record actions not touching "
      "the seven schema-bearing fields), the paired steps pair_addColumn / pair_renameColumn / pair_removeColumn "
      "(schema doc action + matching metadata record action in the engine's order preserve SchemaConsistent, MetaUnique, "
      "WF, Normal), rollback_schema_consistent. Partial: pair_modifyColumn and the three table pairs are not proved; "
      "that useractions.py always emits such pairs is validated per bundle, not proved. Tie: after every bundle the "
      "Lean decision procedure evaluated on the replica (fed only stored actions) must agree with the engine-side oracle, "
      "and the model document's column infos must equal Engine.schema. Search: build_schema(fetch_table(metadata)) vs "
      "Engine.schema and the stray-column check after every successful bundle, every undo/redo and every rollback.",
      "hypotheses of the pair theorems (MetaUnique, NoReverseRefTo, ParentIdIntTyped) are explicit.",
      "Lean 4 theorems (schema/metadata pairing invariant) + per-bundle evaluation of the proved decision procedure + oracle")

  reg("C22", "proof",
      "usertypes convert/do_convert/is_right_type of all 16 column types are modelled line by line over a universe of Python "
      "values (GristModel/PyVal.lean); every raising primitive is explicit, so totality is by construction (convert_total). "
      "Proved for all values and types: convert_range_partial (every type but Blob; convert_range_false: Blob().convert(5)=5), "
      "convert_idem_partial (idempotent unless do_convert raised on a non-string whose alt-text is itself convertible, or on "
      "three explicit degenerate ChoiceList/RefList inputs; each exclusion has a proved counterexample that is replayed on the "
      "real code every run), and unconditional corollaries: Text/Choice/Any/Blob on everything, every type on strings, Id/Ref "
      "when the alt-text is non-empty, Int and Bool on all numbers (given float()/repr() round-trip laws). Differentially "
      "validated only: the model against usertypes on ~7k (quick) / ~77k (thorough) adversarial and random values per run; "
      "hostile objects (raising __eq__/__iter__/__float__, cyclic/5000-deep containers) are searched on the real code only.",
      "Python/library primitives are parameters computed by the harness with the real functions: float(str), float(big int), "
      "repr(float), %.15g, json.loads, iso8601 (moment.parse_iso*), RecordList.from_repr, bytes.decode/float(bytes), "
      "str()/repr() of compound objects, date/datetime stamps; FloatLaws validated each run on all floats/ints seen; "
      "GRIST_TRUTHY_VALUES/GRIST_FALSY_VALUES unset; unicode lower() assumption checked exhaustively; 7 known findings "
      "(known_findings.json).",
      "Lean 4 case analysis per column type (fixpoint lemmas for do_convert results) + differential correspondence + direct oracle")

  reg("C24", "proof",
      "objtypes.encode_object/decode_object/RaisedException.encode_args/decode_args and the exact-type requirement of "
      "marshal.dumps(x, 2) are modelled (GristModel/PyVal.lean: encode, decode, MarshalSafe). Proved by mutual structural "
      "induction over all finite values: encode_marshal_safe_partial (safe unless an encodable dict has a str-SUBCLASS key; "
      "encode_marshal_safe_false is the proved counterexample {S('k'): 1}) and encode_decode_encode (round trip, given that "
      "dates are in range and moment.ts_to_dt decodes each encodable datetime to the same stamp/zone; "
      "encode_decode_encode_false: datetime.max). Differentially validated only: model vs real encode/decode on ~4k/70k "
      "values and ~1k/20k malformed structures; engine level: 29 hostile formulas through main.run on an in-memory "
      "sandbox.Sandbox (every reply must be a DATA message). Recursion depth and cyclic containers: real code only.",
      "transport = marshal version 2 (sandbox.py); Node side = app/common/marshal.ts; parameters: repr() of unencodable "
      "objects, bytes.decode, moment.dt_to_ts / zone name of each datetime, moment.ts_to_dt on decode, moment.ts_to_date for "
      "non-integral stamps; row ids are ints; 3 known findings (known_findings.json).",
      "Lean 4 mutual structural induction over the value universe + differential correspondence + direct oracle + engine-level search")

  reg("C27", "proof",
      "The id-filling loop of useractions.doBulkAddOrReplace, Table.RowIDs (max / membership), the existence assertion of "
      "DocActions.BulkAddRecord, ReplaceTableData and Engine.add_records' effect on the row set are modelled line by line "
      "(GristModel/RowIds.lean: fillIds, addRequest, replaceRequest). Proved for ALL tables and ALL id lists: fill_ids_spec "
      "(one id per entry; explicit entries returned as given; every None/negative entry gets an id above every existing row and "
      "above every id returned earlier in the request), too_high_rejected + fill_error_iff (an id > 1,000,000 - and nothing else - "
      "raises in the loop), existing_rejected (an explicit id of an existing row rejects the request), fill_ids_nodup_iff (the "
      "returned ids are pairwise distinct EXACTLY when the explicit ids are pairwise distinct and none equals an automatic id handed "
      "out earlier in the request), fill_ids_distinct_partial / add_exact_partial (under those hypotheses + explicit ids positive: ids "
      "distinct, positive, disjoint from the old rows, rows afterwards = old rows + returned ids, exactly len(ids) new rows). The full "
      "statement is FALSE of the code; its negations are proved with witnesses and replayed on the engine every run: "
      "repeated_explicit_accepted ([5,5]), late_clash_accepted ([None,3,None] when the next id is 3 -> [3,3,5]), zero_id_ghost ([0]). "
      "Differentially validated only: that the model equals the engine (returned ids, rows afterwards, error class) on every explored "
      "request; that rejected requests leave doc.snapshot() unchanged (rollback is C04's subject); cell data of the new rows.",
      "Exhaustive scope: id lists of length <= 3 over {None,-1,-2,0,1,2,3,5,1000001} x table states {[],[1],[1,2],[2,5]} x "
      "{AddRecord, BulkAddRecord, ReplaceTableData} (thorough: three ways of building each state, incl. an id column longer than "
      "the largest row), evolving random histories, the 1,000,000 boundary. Row ids are ints or None. Three recorded findings "
      "(known_findings.json). Observation: automatic ids are not limited (after row 1,000,000 the next automatic id is 1,000,001); "
      "after an explicit id below the maximum the loop still skips one id (next = max(next, id) + 1).",
      "Lean 4 theorems by induction over the filling loop + differential correspondence through a live engine + direct oracle")

  reg("C26", "proof",
      "ActionSummary.update_new_rows_map / translate_new_row_ids, ReferenceColumn / ReferenceListColumn.prepare_new_values with "
      "_reject_unresolved_temp_ids, and the first lines of doBulkUpdateRecord / doBulkRemoveRecord are modelled line by line "
      "(GristModel/RowIds.lean: updateNewRowsMap, translate, prepareRef, prepareRefList, runStep). Proved for ALL maps, requests and "
      "values: translate_after_update (after an add a negative id maps to the id filled in at its LAST position in the request, "
      "overriding earlier adds; ids the request does not mention keep their mapping), translate_identity_on_positive (only negative "
      "ids are ever keys), temp_id_is_allocated_row (the temp id translates to a row that exists after the add and did not before), "
      "update_by_temp_id / remove_by_temp_id (Update passes the existence assertion on that row; Remove removes exactly that row), "
      "ref_values_translated (accepted Ref/RefList values = the given ones with every negative id replaced by the row recorded for "
      "it, everything else unchanged, nothing negative left), unknown_temp_rejected + prepare_ref_ok_iff (a negative id without "
      "mapping anywhere in the values raises ValueError, and that is the only reason for rejection). Differentially validated only: "
      "that the model equals the engine on whole bundles (retValues, error class, final rows and reference cells predicted from the "
      "model's translated ids); that a rejected bundle leaves doc.snapshot() unchanged (rollback is C04's subject); the per-table "
      "keying of the maps and their lifetime (one bundle); the removal clean-up of references used by the reference interpreter.",
      "A temp id used several times stands for the row of its LATEST use (documented override). 'Negative reference id' = Ref/RefList "
      "value; Update by an unknown temp id is rejected (AssertionError), Remove by an unknown temp id is passed through and removes "
      "nothing (stored action then names the negative id - recorded as an observation, not a violation). Tables T(a,r:Ref:T,"
      "rl:RefList:T,o:Ref:U), U(b,t:Ref:T,tl:RefList:T); no formulas / two-way references; explicit ids in bundles are fresh "
      "(collisions are C27). Floats / strings in reference columns are alt-text, never ids (checked once per run).",
      "Lean 4 theorems by induction over the request / value lists + differential correspondence through a live engine + naive reference interpreter as direct oracle")

  reg("C39", "proof",
      "useractions.RenameChoices is modelled with the pieces it runs through (ChoiceColumn.rename_choices over every slot of "
      "_data, ChoiceListColumn._rename_cell_choice, Engine.trim_update_action, the row assertion of docactions.BulkUpdateRecord, "
      "the rewrite of the column's _grist_Filters records over the parsed JSON) in GristModel/Choices.lean. Proved for ALL slot "
      "arrays, row sets, rename maps and filter tables, whenever the action succeeds: rename_cells_exact / rename_cells_clauses "
      "(the column after the emitted update = every Choice cell equal to a key replaced by its image, every element of every "
      "ChoiceList cell likewise, looked up once in the original map; None, alt-text and wrong-type cells unchanged), rename_swap "
      "({a:b, b:a} exchanges the two choices), rename_frame (only rows of the table, each once, only rows whose value changes; "
      "formula columns get no cell update), rename_filters_exact (filters of the column in the documented included/excluded->array "
      "shape: same keys and order, string entries replaced simultaneously, other entries kept, rewritten only if the parsed value "
      "changes), rename_filters_frame (filters of other columns and empty filters never touched). 'With ANY mapping' is false of "
      "the code: rename_total_partial proves success for maps that do not rename '' (Choice data columns) and list-shaped "
      "filters; the negations are proved in general (rename_empty_key_fails: every map with key '' -> non-empty fails with the "
      "row assertion because slot 0 holds ''; rename_range_filter_fails: a saved range filter {\"min\": 1} makes every rename "
      "fail) with concrete witnesses that the check replays on the real engine (recorded in known_findings.json). Only "
      "differentially validated: that the model equals the code (emitted cell update, emitted filter update, error class, on "
      "documents driven through a live engine) and, by a naive reference on full snapshots, that nothing else in the document "
      "changes and dependent formulas hold the recomputed value.",
      "rename maps str->str; filter text <-> JSON (json.loads/json.dumps) is a parameter; filters that are invalid JSON / "
      "non-objects / hold a string under a key are outside the property (correspondence only); not a summary table, no trigger "
      "formulas; record ids of _grist_Filters distinct (theorem hypothesis). Three recorded findings.",
      "Lean 4 theorems (induction over the slot array / filter table) + differential correspondence through a live engine + snapshot oracle")

  reg("C41", "proof",
      "Engine.fetch_table (query preparation with the set/list fallback, the row scan with the swallowed TypeError, "
      "RowIDs.__iter__, raw_get, the formulas/private/id/virtual column selection) and Python's ==, hash and `in` on "
      "None/bool/int/float/str/list/tuple (nested) are modelled in GristModel/FetchQuery.lean. Proved for ALL tables, flags and "
      "queries: pyEq_symm, pyEq_hashable (equal values are both hashable or both not), cellIn_spec (the try/except dance computes "
      "plain `any(stored == v)` membership in every case), fetch_query_exact (returned rows = the table's rows, strictly "
      "increasing, each once, whose stored value in EVERY queried column is == to a requested value), fetch_query_keyerror "
      "(an unknown column is the only failure), fetch_query_empty (None / {} returns every row), fetch_columns_flags (returned "
      "columns = table order filtered by formulas/private, never id, never '#...'; one stored value per returned row). Only "
      "differentially validated: that the model equals the code (row ids, column ids and order, every returned value, KeyError) "
      "on live-engine documents incl. metadata tables with private columns, lookup and summary helper columns; the clauses are "
      "re-evaluated on the real output by a naive scan with Python's own ==.",
      "values None/bool/int/finite float/str/list/tuple (no NaN, dicts, dates) in queried columns and requested values; query "
      "values are lists; equal builtin values hash equally (Python invariant, used to read set membership as ==).",
      "Lean 4 theorems (mutual induction over nested values, induction over the query) + differential correspondence through a live engine + naive-scan oracle")

  reg("C34", "proof",
      "moment.py Zone/TzInfo/ts_to_dt/dt_to_ts/date_to_ts/ts_to_date are modelled over integer milliseconds "
      "(bisect_right as the real binary search, offset_untils, the ambiguity test with favor_offset) and CPython's "
      "_ymd2ord/_ord2ymd. Proved for every zone record satisfying ZoneWF and every integer instant / wall clock value: "
      "ts_roundtrip (dt_to_ts(ts_to_dt(ts)) = ts), local_offset_adjacent (+ wall_roundtrip, local_offset_in_use), "
      "date_roundtrip_utc and civil_days_bijection (all years), date_roundtrip_zone_partial; ZoneWF is discharged for "
      "every record of the current tzdata.data by generated `decide +kernel` obligations (all_bundled_zones_wf, "
      "bundled_names_wf, bundled_zones_roundtrip). The zone-aware date round trip is REFUTED (date_roundtrip_zone_fails) "
      "and the witness is replayed on the real code (known finding). Differentially validated only: that the model is "
      "the code (all bundled names x every transition in thorough, synthetic and malformed records), float seconds <-> "
      "integer ms, datetime/timedelta arithmetic.",
      "integer-second timestamps over years 2..9998, millisecond resolution for |ts| < 2**32 s; float microsecond "
      "rounding out of scope; bundled untils are integral ms and offsets whole seconds (asserted by the translator on "
      "every run); lean/Generated/Zones*.lean regenerated from the repo's current tzdata.data by gx.translate.gen_zones.",
      "Lean 4 theorems over a zone record + generated per-record kernel-decided obligations + differential correspondence")

  reg("C28", "proof",
      "BulkAddOrUpdateRecord / AddOrUpdateRecord are modelled line by line (GristModel/Upsert.lean: the argument checks in code "
      "order, the loop accumulating adds/updates from lookups on the table before the action, fill-in of the new ids, then "
      "BulkAddRecord and BulkUpdateRecord with Engine.trim_update_action) next to the documented row-at-a-time reference. Proved "
      "for ALL tables, requests and option combinations: upsert_impl_eq_spec_partial (same error / same returned ids / same rows / "
      "same cells whenever no record is named twice by the accumulated update), upsert_impl_eq_spec_distinct_keys (that holds for "
      "distinct row ids and require keys distinct after conversion), add_or_update_eq_spec (single-record form, unconditional), "
      "upsert_validation + _on_many/_empty_require/_lengths/_duplicate (every invalid class is rejected by the argument checks, "
      "before the loop, by implementation and reference alike, and which ValueError), upsert_frame (rows = old rows ++ fresh ids; "
      "updateRecordIds are existing rows; unlisted records unchanged; columns outside col_values unchanged; unconditional). "
      "The two full statements that are false of the code are refuted by decide-checked witnesses that the check replays on the "
      "engine: impl_eq_spec_full_false (trim_update_action against the pre-action table when two input rows name one record) "
      "and validation_full_false (keys equal only after type conversion are accepted). Differentially validated only: that the "
      "model equals the real code (error class + which check, retValues, every data cell, through a live engine incl. formula / "
      "unknown columns, chained cases with persistent lookup indexes) and an independent Python reference on exact values, "
      "document-level frame (no other table, manualSort of old rows), rejected requests leave doc.snapshot() unchanged. "
      "SEVERAL ACTIONS IN ONE BUNDLE (upsert - UpdateRecord/BulkUpdateRecord/AddRecord/RemoveRecord/upsert changing a require "
      "cell or adding/removing a record - upsert looking up the changed key; 3-7 actions, incl. the formula column as key, a "
      "brand-new document without lookup indexes, and bundles whose later action is invalid) are NOT in the Lean model (a "
      "function of one request and one table: no bundle, no lookup index, no engine bookkeeping between doc actions): that "
      "every upsert of a bundle sees the table as the previous actions left it, and that a bundle with a rejected action "
      "changes nothing, is judged by the direct oracle only (retValues of every action, final table, other tables and the "
      "error equal those of the same actions applied as separate bundles; each upsert of that chain is an ordinary "
      "single-action case with reference and model tie, each plain action has a naive reference); the model's retValues per "
      "upsert are additionally compared with the one-bundle retValues, on the table taken from the separate-bundle run.",
      "Parameters taken from the live column objects: col.convert of every request cell, column defaults, table.next_row_id(); "
      "lookup_records = exact scan in row-id order (C13/C05). Scalars None/bool/int/str; no 'id'/'manualSort' keys, no empty "
      "(formula-less) columns; option values boolean or absent; <=1 non-writable col_values column. Theorem hypotheses: next "
      "above every row id, row ids distinct. Sequences of several actions in one bundle do not name the empty column. Recorded "
      "findings in known_findings.json (incl. formula cells stale after a rejected multi-action bundle until the next "
      "calculation = the C04 rollback finding seen through an upsert that looked up by the formula column).",
      "Lean 4 theorems (fold invariant accumulate-vs-immediate, per-row view of update sequences, trim harmless without repeated "
      "ids) + differential correspondence through a live engine + independent reference oracle")

  reg("C15", "proof",
      "The trigger-formula recalculation MECHANISM is modelled for one trigger column over one bundle "
      "(GristModel/Trigger.lean: edges built by _maybe_update_trigger_dependencies only at the end of a bundle, "
      "SingleRowsIdentityRelation, invalidation by BulkAdd/Update/RemoveRecord doc actions, data_cols_to_recompute, "
      "trim_update_action, _prevent_recompute_map cleared per user action, MANUAL_UPDATES invalidation, self-dependency "
      "un-prevent, doc actions replayed by ApplyUndoActions) and the SPEC RecalcSet is written from the property text "
      "(per user action: trigger / protect; recalculated iff the last such event is a trigger; executable form recalcB "
      "proved equivalent). Proved for ALL configurations, tables and bundles: recalcSet_subset_mechanism (every cell the "
      "property wants recalculated is evaluated, provided the edges are those of the live configuration), "
      "trigger_mechanism_eq_spec_partial (evaluated cells = RecalcSet on the decidable domain inDomain), "
      "changed_dep_recalculated, schema_only_never_recalculates; and the NEGATION of the unrestricted statement "
      "(trigger_mechanism_eq_spec_false) with one witness per hypothesis (witness_add/_trim/_last/_stale/_stale_missing/"
      "_readd/_failed), each replayed on the real engine every run. Only differentially validated: that the model equals "
      "the engine (evaluated cells observed with engine.formula_tracer and through a counter formula, on histories and an "
      "exhaustive small scope, for every trigger column of every bundle) and that the Lean spec lies within the independent "
      "Python reading of the property. DIRECT ORACLE ONLY: that READERS of a trigger column do not change the outcome - "
      "formula columns `$B` whose ids sort before / after the column (chains too), lookupRecords / lookupOne keyed on it from "
      "the same and another table, a summary table grouped by it, all of which make the engine visit the column's node through "
      "a nested _recompute_step(allow_evaluation=False) before its own evaluation: the model has no evaluation order, so for "
      "such documents (80% of the histories, every configuration x reader kind of the small scope, 27 fixed reader witnesses) "
      "the property's own clauses judge the real outcome (evaluated cells within [must, may]; an explicit value set by the "
      "last user action is never recalculated and such a recalculation is never attributed to a recorded finding; every "
      "reader agrees with the final trigger cells). Also DIRECT ORACLE ONLY: the lookup family - trigger formulas that "
      "PERFORM lookups (Table.lookupOne / lookupRecords into another table K or into the table itself), trigger columns that "
      "list ANOTHER trigger column in recalcDeps (chains of up to three), and edits of the looked-up table that change the key "
      "set of looked-up keys (quick: 48 histories + 35 fixed witnesses every run; counters lk_*, tdep_*, lookup_witness_held): "
      "a lookup made by a trigger formula is not a dependency, so edits of the looked-up table must recalculate nothing; a "
      "recalcDeps cell that is itself a trigger cell counts as changed / written / recomputed according to the real outcome "
      "observed for that cell. The Lean model has one trigger column per op and no lookups: the lookup column itself (plain "
      "recalcDeps) is still tied to the model, columns listing another trigger column are not (tie_skipped_trigger_dep).",
      "recalcDeps are plain data columns, formula columns over plain data columns, the column itself, or (lookup family) "
      "another trigger column without cycles (never a reader of a trigger column); a recomputed trigger dependency is "
      "attributed to the only user action of the bundle naming rows of the table (several: MAY only); values of the "
      "column's type; tie skipped (oracle applied) for bundles with record edits after a schema change; six recorded findings "
      "(known_findings.json): supplied value on add overwritten, trimmed explicit value, exemptions cleared per user "
      "action, stale edges within a bundle, stale entry on re-added row id, entries surviving a failed bundle.",
      "Lean 4 theorems (characterisation of the state machine by per-action predicates + list decomposition) + differential "
      "correspondence through a live engine + independent reference oracle")

  reg("C18", "proof",
      "GristModel/Recalc.lean models the update loop as a nondeterministic machine (write / eval / circ over cells, "
      "formulas as deterministic programs over the cells they read, OrderError = first dirty read, cycle branch = "
      "blocking chain returns to the locked cell). Proved for all programs, stores and schedules: every eval/circ step "
      "strictly shrinks the dirty set, so runs terminate within |dirty| steps (step_dirty_decreases, run_length_bound); "
      "while a cell is dirty some transition is enabled (progress - the engine's two 'not making progress' exceptions "
      "are unreachable; complete_run); the cycle branch fires only on cells that depend on themselves "
      "(circ_only_on_cycle); at quiescence every formula cell equals its formula applied to the store or holds "
      "CircularRefError on a self-dependent cell (quiescent_fixpoint), and under prefix-determinism of reads (which sums "
      "of references satisfy) every cell is a fixpoint (quiescent_fixpoint_strong_partial). A machine-checked "
      "counterexample shows the strong form fails without that hypothesis. Tie: exhaustive small dependency graphs are "
      "built in the real engine under several schedules; the order in which the engine finished cells (eval / cycle "
      "branch) must be an accepted run of the machine and the values must agree. Search: independent reachability "
      "oracle for which cells lie on cycles; incremental edits that create and break cycles. Cycles whose cells hold "
      "DECODED error values (RaisedException with .error None) when they are recalculated are exercised on every run: "
      "removal of rows / of a column / of the table followed by ApplyUndoActions of the JSON round trip of the undo, and "
      "loading the stored document into a new engine (action-repr and DB-blob decoding; load_done and Calculate), each "
      "followed by data and formula edits; 7 fixed witnesses go through every family. These situations are judged by the "
      "direct oracle (no step raises; cycle cells hold CircularRefError; dependents keep the CircularRefError they held "
      "in the live engine; off-cycle cells their value; column.get_cell_value of a cell reported as CircularRefError "
      "raises CircularRefError for its readers). The machine tie covers them only where every formula cell of the rows "
      "concerned is recalculated (record-removal undo, table-removal undo, document load: the 'graph' op's all-dirty "
      "start state); column-removal undo and the edits that follow a restored state are judged by the direct oracle ONLY.",
      "formulas in the exhaustive family are sums of same-row references, strict in errors; in the live-engine family "
      "cells that merely depend on a cycle are compared with the model only (the property is silent about them). The "
      "model has one abstract CircularRefError value: live vs decoded error objects are not modelled (reader probe of "
      "the direct oracle only). Stored form = fetch_table(formulas=True) encoded/decoded in process, not a SQLite file.",
      "Lean 4 theorems (termination measure, progress by pigeonhole, invariant) + trace refinement on exhaustive graphs")

  reg("C05", "proof",
      "On the Recalc machine: inv_preserved (write, eval and circ preserve 'every clean formula cell read only clean cells "
      "and equals its formula, or is a flagged self-dependent cell'; closure_closed' for invalidation), "
      "quiescent_consistent, acyclic_unique (the formula fixpoint over given data is unique on ranked documents), "
      "fresh_run_agrees / fresh_recalc_agrees (an incremental quiescent state and a from-scratch quiescent state with the "
      "same data agree on every cell). Tie: the machine's enabledness condition is audited on the real engine for every "
      "evaluation of every bundle (a completed evaluation must not have read a dirty cell), and C18's trace refinement. "
      "Search (the property itself): after every successful bundle of formula-heavy histories a fresh engine is loaded "
      "from the data columns only and every table compared. Below the Recalc machine, lookup.py's _LookupRelation "
      "bookkeeping (which referring rows are handed to invalidate_records when keys of a lookup index change; the "
      "_invalidated_keys_cache) has its own model Grist.LookupRel, proved for ALL operation sequences on one relation: "
      "lookuprel_map_exact (the row<->key map is exactly the lookups recorded since each row's last reset), "
      "lookuprel_cache_exact, lookuprel_handed_or_already_handed (a row that recorded key k and was not reset is handed "
      "over by every invalidation of k unless an earlier invalidation of k handed it over and nothing cleared the cache "
      "since), lookuprel_clean_live_handed / lookuprel_settled_rows_handed (under the explicit hypothesis engineSettled "
      "every lookup of the latest evaluation of a row the engine treats as up to date is honoured by every invalidation), "
      "and machine-checked witnesses that all of this fails when _add_lookup does not clear the cache "
      "(lookuprel_variant_*). Tie: every relation of every quick-tier history (every third in thorough) is recorded at "
      "run time and replayed in the model (rows handed over per invalidate_affected_keys, get_affected_rows_by_keys, "
      "final map and cache), plus seeded random operation sequences and the theorems' witnesses on a bare "
      "_LookupRelation; engineSettled is evaluated on every trace at every end of a bundle. Partial: formulas are "
      "abstract deterministic programs; lookup index maintenance is proved separately (C13) and tied only through the "
      "fresh-engine comparison; that the engine issues reset_rows / re-evaluations as engineSettled says is observed per "
      "trace, not proved, and fails (counted, expected) for the #summary# helper columns whose lookupOrAddDerived "
      "changes the index it reads; the tracker's fan-out to all relations is audited at run time only.",
      "no volatile / side-effecting user formulas and no trigger-formula data columns (excluded by the property); the "
      "read audit covers row-specific reads; LookupRel keys are tokens numbered by Python equality/hash per relation.",
      "Lean 4 theorems (recalculation invariant, unique fixpoint, lookup-relation invalidation safety) + read audit + "
      "run-time trace correspondence + fresh-engine differential")

  reg("C06", "proof",
      "schedule_independent_acyclic(_state): two complete runs of the Recalc machine from the same state end in the same "
      "state on ranked (acyclic) documents; schedule_independent_cone / schedule_independent_cyclic_partial: without any "
      "rank function they agree on every cell whose dependency cone is acyclic (reachesCycle = false). Tie and search: the "
      "engine's initial work-item order is permuted (lookup nodes first, the engine's own rule) - every bundle of every "
      "history runs on 1+3 engines; tables must be identical and stored actions equal as multisets; permuted runs of the "
      "C18 graphs must be accepted runs of the machine. Partial: cells on or behind cycles are covered by C18's "
      "characterisation for strict formulas and by the search.",
      "permutation point = Engine._make_sorted_work_items.",
      "Lean 4 theorem (confluence via unique fixpoint) + permuted-schedule differential")

  reg("C09", "proof",
      "GristModel/MetaRefs.lean: decidable predicate metaRefsResolve (every Ref/RefList cell of every metadata reference "
      "column - read from the current schema.py each run - points at existing rows; fields' columns belong to their "
      "section's table; one _grist_Tables record + raw section per user table; display/rule helper columns still used) "
      "and the clean-up of doBulkRemoveRecord. Proved: cleanedCell_* (Ref -> 0, RefList -> filtered in order / None, "
      "non-reference values untouched), cleanup_then_remove_resolves_partial and no_refs_to_removed (clean-up then "
      "removal leaves no reference to a removed row and preserves resolution, incl. self references and several specs per "
      "table), remove_unreferenced_resolves, frame, update_unlisted_preserves, bulkAdd_target_only_preserves_partial, "
      "refsResolve_same_invariant. Partial: the table-specific cascades (_removeTableRecords, doRemoveColumns, "
      "_removeViewRecords, summary.update_summary_section) are validated per bundle by evaluating the predicate, not proved. "
      "Tie: the Lean predicate evaluated on the replica (fed only stored actions) must agree clause by clause with the "
      "Python twin on the real engine after every bundle. Search: the twin after every successful bundle of removal-heavy "
      "histories.",
      "RefListRoundTrip (parse . render = id on the model's own list tokens) is an explicit hypothesis of the RefList "
      "cases; raw writes of arbitrary ids into metadata are outside the quantifier.",
      "Lean 4 theorems (reference clean-up invariant) + per-bundle evaluation of the decidable predicate + oracle")

  reg("C29", "proof",
      "get_formula_value_restores: from ANY engine-model state, side-effect doc actions performed during a single-cell "
      "evaluation followed by the rollback to the checkpoint taken before it give an observationally equal document and "
      "exactly the checkpoint's stored/direct/undo lists (instance of C04's rollback theorem); no_side_effects_noop. "
      "Search (the property itself): read-only calls (fetch_table with and without query, fetch_meta_tables, "
      "get_formula_error, evaluate_formula, get_formula_prompt, autocomplete, find_col_from_values) with generated "
      "arguments on documents with summary tables and lookupOrAddDerived formulas: all tables unchanged and a following "
      "Calculate emits nothing. Partial: rlcompleter / formula_prompt introspection and dirty-set effects are not modelled.",
      "calls made in-process on the functions main.py exports.",
      "Lean 4 theorem (rollback at a mid-bundle checkpoint) + direct oracle on read-only calls")

  reg("C25", "proof",
      "PARTIAL (schema and frame clauses proved; totality of the migration bodies searched). table_data_set.TableDataSet (the interpreter migrations run against and test_migrations applies their output with) is "
      "modelled exactly as two insertion-ordered dicts with list columns (GristModel/Lenient.lean: KeyError/IndexError where the "
      "Python raises, None and repeated row ids, misaligned value lists, in-place overwrite on AddColumn/RenameColumn/RenameTable "
      "onto existing names). Proved for ALL documents and data: lenient_schema_data_independent (the schema reached depends only "
      "on the start schema and the schema-action subsequence), migrate_schema_reaches_current (for EVERY version 0..SCHEMA_VERSION: "
      "any document with the version-v metadata schema, any user tables and data, and any action list whose metadata schema actions "
      "are the ones the REAL create_migrations emitted for that version, if applied without exception reaches exactly the current "
      "metadata schema as a dict - 47 generated obligations evaluated by the kernel on lean/Generated/Migrations.lean, regenerated "
      "from the working tree on every run), migrate_frame/applyL_frame (actions naming only _grist_* tables leave every other table's "
      "rows, cells and schema untouched), user_schema_action_keeps_cells (ModifyColumn/AddColumn/RemoveColumn/RenameTable on a user "
      "table keep its rows and the cells of all other columns), current_only_version + version_act_only_rewrites_version (the list "
      "emitted at the current version is the single schemaVersion update, which changes nothing else). NOT proved, searched only: "
      "totality of the data-dependent Python bodies of the 46 migration functions (loops over records, JSON parsing) and that the "
      "emitted list for a populated document has the same metadata schema actions as for the empty one; both are checked on random "
      "documents at every version (real create_migrations + real TableDataSet, compared with the compiled model), with every "
      "free-text metadata column swept with wrong-shape JSON, edge numbers, deep nesting and non-JSON text. VARIANT START SHAPES "
      "(direct oracle only, NOT covered by migrate_schema_reaches_current, whose generated obligations hold the linear-history "
      "start schema of each version only): documents of one version number that already have / still lack what a guarded "
      "migration step adds (if-column/table-not-in and maybe_add_column: m1 version-0 documents without _grist_Attachments / "
      "_grist_TabItems / schemaVersion, m7 documents that already have summarySourceTable / summarySourceCol, m39 the two shipped "
      "flavours of version 38 - _grist_Triggers.memo/label/enabled present and _grist_Views_section.description absent, or the "
      "reverse - plus any guard an AST scan of migrations.py finds); every non-empty subset of a migration's guard units is "
      "toggled at the version just before it on every run and at earlier versions, with random mixes across migrations; for "
      "each the real chain must succeed, reach schema.py column by column, keep user tables, and re-migrating the result must "
      "emit only the schemaVersion update and change nothing (the applied actions are also replayed on the TableDataSet model).",
      "Version-v documents = schema_version0() + registered migrations 1..v, then populated (variant shapes: guard units toggled "
      "before populating; a unit = the columns one guarded block adds, atomic; toggled-in columns get schema.py's col_info); typed cells in database representation "
      "(RefList/ChoiceList None or JSON text), referentially consistent metadata, well-formed identifiers/types; schema equality is "
      "Python dict equality (column order legitimately differs); documented user-table effects of old migrations (m3/m7/m10/m17/m28/"
      "m31) are allowed, m17's Image conversion is checked against its documented rule; col_info abstracted to (type,isFormula,"
      "formula,reverseColId), checked per emitted action. 23 recorded findings: migrations 15/16/29/34/35/45 raise on Text cells "
      "holding JSON of the wrong shape, NaN/inf/huge numbers or deeply nested JSON (known_findings.json).",
      "Lean 4 theorems (induction over the action list, dict lemmas) + kernel-evaluated generated obligations + differential "
      "correspondence + direct oracle on the real migration chain")

  reg("C13", "proof",
      "twowaymap.TwoWayMap (all five bin types, the except-block rollback of insert, CPython's hash-free pop on an empty "
      "dict), lookup.SimpleLookupMapping / ContainsLookupMapping (itertools.product over per-column key groups, "
      "match_empty, strings are no containers), remove_row_id, the LookupSet sorted_versions cache with "
      "_do_lookup_with_sort / _reset_sorted_versions, table.make_sort_spec, make_sort_key's '-' prefix and get_one are "
      "modelled line by line (GristModel/Lookup.lean) as an event machine of one LookupMapColumn (cell writes, "
      "update_record / _reset_sorted_versions deliveries, unset, lookup). Proved for all inputs: twoWayMap_bins_lawful + "
      "twoWayMap_fwd_bwd_inverse (for every pair of the five bin types _fwd and _bwd stay mutually inverse after any "
      "sequence of insert/remove/remove_left/remove_right/clear, failing calls included); index_exact / _simple / "
      "_contains (after ANY event list a delivered row is in the set under K iff its cells match K column by column; "
      "the product construction yields exactly the matching keys); sorted_cache_valid + lookup_hit_eq_fresh (a cached "
      "sorted version of a set whose rows are delivered is the sort of the current set under current values, so a cache "
      "hit equals a fresh sort) under one stated ordering assumption (Ev.allowed: key cells of a row are not rewritten "
      "between a _reset_sorted_versions that ran before its pending update_record and that update_record; its necessity "
      "is shown by a concrete counterexample, which the check also drives into the real objects); do_lookup_spec / "
      "do_lookup_sorted (lookup = naive filter by the column-wise match, sorted by the SortKey of the spec, strictly "
      "increasing, a permutation of the matches, independent of set iteration order - using C14's keyLt order theory); "
      "lookupOne_spec; make_sort_spec_spec. Differentially validated only: that the model equals the real code - every "
      "LookupMapColumn of table T of a live engine is instrumented at run time and its exact event stream (with every "
      "result, the full _fwd/_bwd and every cache entry after every bundle) is replayed through the compiled model; "
      "TwoWayMap op sequences over all 25 bin pairs and make_sort_spec are diffed directly; the engine's scheduling "
      "(that every changed row is delivered; the ordering assumption, checked on every real stream) and the key type "
      "conversion are not modelled. Direct oracle: naive filter+sort per the property text on every probe formula cell "
      "after every bundle, naive recomputation of every real index and cache. Lookups with MIXED key kinds - CONTAINS on "
      "ChoiceList / RefList / Any-list / Any-formula-list columns combined with equality keys on Ref / Int / Text / Bool / "
      "Choice columns in one lookupRecords / lookupOne call (1-3 keys, keys given as Records, row ids and plain values, "
      "list cells empty / None / alt text / with duplicates / holding Records and row ids mixed) and the edits that move a "
      "row between such keys - are covered by the direct oracle and tied to the same event machine (whose kinds list "
      "mixes exact and CONTAINS columns); lookup._extract (Record -> row id on the index side and the key side) is NOT "
      "modelled - the harness canonicalises Records to row ids before the model sees them - so an index that stores Record "
      "objects instead of row ids is caught by the direct oracle / naive index recomputation only.",
      "sort values of returned rows mutually comparable (else only the row set is demanded); keys not NaN, exact keys "
      "hashable; model universe None/bool/int/float/str/AltText + lists (key cells), None/bool/int/str (sort cells; "
      "manualSort positions scaled by 2^80); 0/False in a CONTAINS(match_empty) column accepted either way; key type "
      "conversion taken from the real tree; T <= ~8 rows, 14 of 22 probe formulas per history; mixed-key stream: 6 (quick) "
      "/ 280 (thorough) random histories with 8 fixed + 8 generated combined probes, every ordered pair of (Ref key, list "
      "cell) states of one row (12x12 quick, 24x24 x 3 thorough), one scripted witness; a Record counts as its row id; "
      "`.id` of a reference to a removed row is 0; one recorded finding "
      "(stale stored lookup after a type change of the key column of an EMPTY table, known_findings.json).",
      "Lean 4 theorems (bin-type contract + relational invariant of TwoWayMap; event-machine invariant with ghost dirty "
      "sets; uniqueness of the sorted permutation) + differential correspondence on instrumented live objects + direct oracle")

  reg("C19", "proof",
      "codebuilder.make_formula_body is modelled on top of the C37 Textbuilder model with CPython's parser, asttokens' "
      "positions and astroid's re-parse as PARAMETERS (recorded from the real run): dedent, DOLLAR translation, $->rec. / lazy "
      "lambda / return / pass patches via map_back_offset, _indent, multi-line-string un-indent, _create_syntax_error_code "
      "(LineNumbers, splitlines lookup, comment regexp incl. the lone-CR fix, raise line). Proved for all texts: _indent "
      "prefixes exactly the non-blank '\\n'-lines and changes nothing else (indent_preserves_lines); every physical line "
      "(split at \\n, \\r\\n, lone \\r) of the commented text starts with '# ' (commentize_every_line); the stub is comment "
      "lines + one raise, also after indentation (stub_is_comments_plus_raise, indented_stub_is_comments_plus_raise); "
      "the stub is produced whenever the error has a line number and the line exists (stub_total_partial); "
      "_do_make_formula_body returns default / stub / the formula with only documented patches (body_only_documented_edits_partial, "
      "dollar_patches_are_dollars, edited_body_text via C37); in a Combiner-assembled module each body owns its range and "
      "map-back stays inside it (module_isolation, module_spanning_refused). FALSE and proved so with witnesses: indentation "
      "reaches every physical line (indent_all_physical_lines_is_false: lone CR), the stub is always produced "
      "(stub_fails_without_lineno: NUL). Differentially validated only: model == real make_formula_body (text / exception, "
      "parser input, map_back_patch) on curated + grammar + junk streams; the property itself (bundle succeeds, other columns "
      "untouched and still recomputing, junk column holds SyntaxError values, valid formulas evaluate like an independent "
      "translation + exec) on the real code at function and engine level. Five known findings (lone CR in a valid formula incl. "
      "an accepted bundle that replaces other columns' formulas; parser-ok/compiler-error formulas; NUL; deep nesting; dedent "
      "coordinate mix-up IndexError).",
      "parser / asttokens / astroid are parameters; friendly-traceback text absent (shim); no lone surrogates; lazy functions "
      "compared at engine level only with total arguments; `$name` in f-string fields, after '.', or glued to an identifier is "
      "not judged by the oracle.",
      "Lean 4 theorems (induction over characters / lines / patch lists, C37 theorems reused) + recorded-parser differential + engine-level oracle")

  reg("C17", "proof",
      "process_renames, the three entity collectors and renamers, and the colIds / lookupColId updates are modelled on top "
      "of the Textbuilder and TreeConverter models (Grist.PredRename). Proved for all printed formulas (lexeme lists), all "
      "collectors, contexts and rename sets: process_renames_exact (the returned text is the same lexemes with exactly the "
      "name tokens of the denoted, renamed references replaced; the Replacer / dollar map-back never errs), "
      "renamed_is_printed + rename_reparses (given that Python's parsers read the printed formula before and after, the new "
      "text parses to the old tree with exactly those references renamed), only_name_tokens_change, "
      "convert_commutes_with_rename (stored parsed form), unsupported_untouched / unparsable_untouched_partial (the full "
      "clause is false of the code: unparsable_untouched_full_is_false, witness replayed), resource_colIds_renamed, "
      "lookupColId_renamed. Differentially validated only: the parser/asttokens parameters (Python ast and asttokens "
      "positions on the old and the renamed text) and model = code on generated formulas (function level) and through a "
      "live engine (RenameColumn / RenameTable / label / bulk colId updates on documents with ACL rules, user attributes, "
      "dropdown conditions, trigger conditions), with an independent oracle based on CPython's own ast positions. "
      "Summary tables: most generated documents and one fixed history per run carry ACL resources/rules, a user "
      "attribute, dropdown conditions (choice.X of Ref/RefList columns pointing to a summary table; rec.X/$X of a Ref "
      "column of a summary table) and trigger conditions on SUMMARY tables, and rename the source column of a group-by "
      "column (which renames the group-by column and the summary table, T_summary_a -> T_summary_b, in one user action) "
      "or a summary table's formula column. These situations are judged by the direct oracle (renames read off the "
      "metadata before/after, keyed by the table id before the bundle; every formula / colIds / lookupColId must be the "
      "old text with exactly those references renamed, tableId must follow the table rename) plus the same per-formula "
      "model tie as for ordinary tables; the ordering inside useractions._updateColumnRecords (rules rewritten while the "
      "old summary table id is still current) is NOT modelled or proved in Lean (counters eng_summary_*).",
      "parameters: Python tokenizer/parser, asttokens token positions, get_dollar_replacer's `$` detection; ASCII column "
      "ids; colIds lists without blanks; one rename action per bundle at engine level; summary-table situations "
      "(group-by rename + automatic summary-table rename) are differential/direct-oracle only; columns added to summary "
      "tables get names unique per summary table (sister-column synchronisation is outside C17).",
      "Lean 4 theorems over lexeme lists + Textbuilder model (C37) + TreeConverter model (C40); differential correspondence")

  reg("C23", "proof",
      "One cell through docactions.ModifyColumn + useractions.doModifyColumn is modelled (GristModel/PyVal.lean: modifyCell = raw "
      "copy through column.set, column.convert, strict_equal test, set; colSet, colConvert, strictEq). Proved for all values and "
      "target types: modify_type_cells (the cell encodes like colSet(convert(old)) unless strict_equal hides a difference through "
      "True==1 / 0.0==0; modify_type_cells_false is the proved counterexample [True, 2] -> RefList), modify_type_cells_scalar "
      "(no exclusion for Text/Choice/Bool/Int), modify_type_range_partial (new cell is right-type / error / text unless it is a "
      "text in a ChoiceList/RefList column; modify_type_range_false), modify_type_aborts (int beyond float range aborts a change "
      "to Numeric), modify_type_frame/modify_type_column (table level: only the changed column's cells change). Differentially "
      "validated and searched on the live engine: all 110 ordered type pairs x both paths (ModifyColumn, UpdateRecord on "
      "_grist_Tables_column) x adversarial contents, two-way reference pairs; every cell is tied to the model, compared with an "
      "independent usertypes conversion of the pre-bundle value, all other data cells and the stored actions are checked.",
      "oracle conversion = usertypes.<NewType>.convert after the documented Ref/RefList adaptation; encodings compared with int/float "
      "normalised (the drift is the C01/C03 finding); documented refusals (two-way reference to non-reference type, UNIQUE) are outside "
      "the property; 4 known findings (known_findings.json).",
      "Lean 4 case analysis over value shapes and column types + live-engine differential check + direct oracle")

  reg("C07", "proof",
      "Value level proved on GristModel/PyVal.lean: dbDecode_eq_decode (_decode_db_value after marshalling is decode_object), "
      "colSet_idem (column.set normalisations are idempotent), reload_encode (the reloaded cell encodes exactly like the saved "
      "one; uses C24's round trip), reload_value_stable (equal_encoding(reloaded, recomputed) holds for every column type and "
      "formula result, so Calculate emits nothing, provided no NaN is nested in a list/dict and the value is not a text that "
      "ChoiceList/RefList set() parses again; both exclusions have proved counterexamples replayed on the real code). The deciding "
      "comparison is equal_encoding (strict_equal only pre-filters). Differentially validated: real column objects x value tables "
      "through convert/set/encode/marshal/_decode_db_value/set vs the model. Searched only (document level): seeded formula-heavy "
      "histories, the document is saved by the prescribed cell-level procedure and reopened after every bundle: Calculate must "
      "store nothing and all tables must be equal.",
      "save procedure fixed by the property (scalars as themselves, compound encodings as marshalled blobs, _decode_db_value on load); "
      "Node-side number typing excluded; no volatile/trigger formulas generated; int/float drift is the C01/C03 finding; recomputation "
      "being a function of the data is C05's theorem; 4 known findings (known_findings.json).",
      "Lean 4 proofs over the value universe (reusing C24's round trip) + differential value-level check + history-based reload search")

  reg("C16", "proof",
      "Formula language FExpr (GristModel/FormulaRename.lean): int/str literals, + - * == != < <=, rec, loop variables, "
      "$col, e.col (rec.col, reference chains, attributes of lookup results / record sets), T.lookupRecords/lookupOne(k=e, ..., "
      "order_by=\"c\"|\"-c\"|tuple), T.all, [body for x in recordset], len/sum/max, PREVIOUS/NEXT/RANK(e, group_by=, order_by=), "
      "IF; every name occurrence annotated with the table it is resolved in; a printer into text pieces with denotations, "
      "rendering with arbitrary trivia, the renaming of the tree, a dynamic (Python-like) evaluator over documents with "
      "Int/Text/Ref/RefList columns, a schema-directed typing HasTy with a computable checker, and "
      "UserActions._prepare_formula_renames on top of the C37 Replacer model. PROVED for all documents, rows, variable "
      "bindings, well-typed formulas, trivia and fresh non-empty new ids (values: also Ren.Safe = new column id not order_by/sort_by, "
      "table ids not IF/PREVIOUS/NEXT/RANK; without it the value clause is FALSE of the code: negations "
      "rename_to_reserved_keyword_is_false / rename_to_function_name_is_false proved with witnesses that are replayed on the "
      "real engine): eval_type_sound (the run-time table of every record "
      "is the statically assigned one), rename_preserves_eval (renamed formula in renamed document = original value keyed "
      "through the rename), rename_column_value_identical / rename_scalar_value_identical (literally identical values), "
      "print_rename_eq_patch (what _prepare_formula_renames stores = print of the renamed tree, for every order of the "
      "discovered occurrences; uses C37 replacer_text_eq_applyPatches), rename_text_outside_patches (C37 only_patched_changed), "
      "rename_only_denoting_tokens / rename_denoting_tokens (same pieces; exactly the pieces denoting the renamed entity are "
      "respelled), checked_hasTy (the driver's checker is sound). ONLY DIFFERENTIALLY VALIDATED: that astroid's "
      "parse_grist_names discovers exactly the annotated occurrences (gencode.grist_names() vs generator ground truth on every "
      "generated formula), that the model printer/evaluator equal the real text and the real engine's cell values (before and "
      "after every rename), and the stored new formula vs print(rename e). Direct oracle on the real engine for every rename path "
      "(RenameColumn, RenameTable, UpdateRecord/BulkUpdateRecord colId, label with tied colId, tableId): all cells equal keyed "
      "through the rename; new text = old text with exactly the ground-truth occurrences replaced (char level + tokenize diff).",
      "Fresh new id (C21) and HasTy are hypotheses; formulas mention data columns, id and typed formula columns; manualSort = row "
      "order; no floats; RefList lookups (CONTAINS), find.*, sort_by and $group are outside the grammar; eval = what a freshly "
      "loaded engine computes (no caches). Six recorded findings (known_findings.json, each with a witness replayed every run): "
      "comprehension over a RefList column / record-set attribute; table id equal to a `functions` export (N, T: inference "
      "through Ref columns); table renamed to/from IF etc. (function shadowed / its calls rewritten); loop variable named like "
      "a table; column renamed to order_by/sort_by; order_by key column rebuilt during the rename (stale column object in the "
      "cached SortKey). A rejected rename bundle is no rename (the case continues on a rebuilt "
      "document).",
      "Lean 4 theorems (structural induction over typing derivations, token lists and patches) + differential correspondence "
      "through a live engine + direct before/after oracle")

  reg("C30", "proof",
      "flushAll_perm_invariant' / stepFinish_perm_invariant / changesToActions_order_invariant: the calc flush "
      "(ActionSummary.convert_deltas_to_actions and _changes_to_actions) gives the same stored and undo actions whatever "
      "the insertion order of the summary's dicts (tables, column deltas, row deltas, presence maps, rename maps) - the "
      "Python dict/set iteration order cannot influence it; with C13's sorted_perm_invariant (lookup results do not depend "
      "on set iteration order). Partial: sites outside the models (useractions cascades iterating sets of Records) are "
      "only searched. Search (the property itself): identical histories replayed in separate processes under different "
      "PYTHONHASHSEED values; replies (stored, undo, direct, retValues) and all tables must be identical bundle by bundle. "
      "Judged by this direct oracle ONLY (the Lean model starts below the user-action layer and does not contain its "
      "per-item loops): multi-item user actions - ONE UpdateRecord / BulkUpdateRecord / AddRecord / BulkAddRecord / "
      "AddOrUpdateRecord entering data into two or more still-empty columns of a table (each is converted: ModifyColumn + "
      "_grist_Tables_column updates), ONE BulkRemoveRecord / BulkUpdateRecord on _grist_Tables_column naming several "
      "columns (removed, renamed by colId or label, retyped, converted, formula changed), ONE action on _grist_Tables naming "
      "several tables (removed, renamed, onDemand with empty columns), ONE BulkRemoveRecord naming several widgets / fields / "
      "views / pages; generated in dedicated 'multi' histories and six fixed witness histories on every run, most followed "
      "by an undo pseudo-bundle (each process applies its own undo list); counters multi:<situation> count only bundles "
      "whose stored actions really contain two or more per-item doc actions. Recorded findings (order only, tables "
      "identical; attributed only when the difference is FULLY explained: same actions as multisets and identical "
      "sequences once the named actions are taken out; the comparison of that history stops there because the schema's "
      "column / table order may differ afterwards): (1) BulkAddOrUpdateRecord builds its value dicts from a set of column "
      "ids, so the order in which it converts several empty columns depends on the hash seed - only when the bundle's sole "
      "multi-item situation is that upsert; (2) doRemoveColumns rewrites sortColRefs of several widgets in one "
      "BulkUpdateRecord whose row order is that of a set of Records (address-based hash; differs even under one hash "
      "seed). The renaming of a group-by source column of several summary tables (set-of-Records order until fix dbe5f92) "
      "is a fixed witness.",
      "documents without time/randomness-dependent formulas; error replies compared by exception class; multi-item user "
      "actions are covered by the cross-process search only, not by a theorem.",
      "Lean 4 theorems (order-independence of the flush) + cross-process differential under PYTHONHASHSEED")

  reg("C10", "proof",
      "The reference-column machinery (relation.py ReferenceRelation.inverse_map with add/remove_reference, column.py "
      "BaseColumn.set/unset/clear, BaseReferenceColumn.set/_update_references/copy_from_column/"
      "get_updates_for_removed_target_rows/_raw_get_without for Ref and RefList) is modelled line by line "
      "(GristModel/Refs.lean). Proved for ALL operation sequences and ALL columns: inverse_map_exact (after any sequence "
      "of set/unset/copy_from_column/clear-when-empty the reverse index equals {(t, r) | t in refs(cell r)} and no operation "
      "raises), remove_clears_refs (on an exact index the computed clean-up never raises, leaves no Ref/RefList cell "
      "referring to a removed row, a RefList equals its old list filtered with order kept and is None when empty, a Ref "
      "becomes 0), remove_frame (all other cells, wrong-typed values included, are unchanged; the index stays exact). "
      "Differentially validated only: that the model equals the real code (every live reference column's logged real "
      "operations replayed through the model: data and inverse_map incl. key order and empty sets; every real call of "
      "get_updates_for_removed_target_rows recomputed), and the engine-level cascade: after every successful bundle of "
      "removal-heavy seeded histories every data Ref/RefList cell of every table (metadata included) is scanned for rows "
      "that disappeared by any means, the RefList clause is re-evaluated on snapshots, and every real inverse_map is "
      "compared with the index recomputed from the cells.",
      "ids non-negative (negative temp ids are rejected by the engine; such columns are skipped and counted); hypothesis "
      "of inverse_map_exact: BaseColumn.clear (which does not touch the relation) is only called when no cell refers to "
      "anything (true of load_table after the old rows were unset; the example shows it is necessary); which columns "
      "doBulkRemoveRecord visits and the user-action path for metadata tables are validated by the direct oracle, not "
      "proved. One recorded finding: ReplaceTableData drops referenced rows without clean-up (known_findings.json).",
      "Lean 4 theorems (induction over the operation list; association-list dict/set model) + differential correspondence + direct oracle on a live engine")

  reg("C11", "proof",
      "reverse_references.get_reverse_adjustments, BaseReferenceColumn.prepare_new_values/recalc_from_reverse_values, "
      "_list_to_value (UniqueReferenceError), trim_update_action and the order of the doc actions in doBulkUpdateRecord / "
      "doBulkRemoveRecord are modelled for a pair of linked columns (GristModel/Refs.lean: Pair, updateX/Y, removeX/Y, "
      "rebuildY). Proved for all pairs (Ref/RefList on either side), all bulk updates naming every row at most once "
      "(duplicate targets, several rows retargeted at once): reverse_adjustments_sym_partial(_y) (Sym + exact indexes + "
      "accepted update => Sym and exact indexes again), unique_rejects (UniqueReferenceError iff the other side is Ref "
      "and some touched target would get two referrers), remove_sym(_y) (record removal on either side with the C10 "
      "clean-up keeps Sym), rebuild_sym / rebuild_rejects (recalc_from_reverse_values after a Ref<->RefList switch or "
      "link creation yields Sym whatever the reverse column held; rejected iff a single-valued side would get two "
      "referrers). The full statement without 'every row at most once' is proved FALSE of the code "
      "(reverse_adjustments_sym_full_false; witness replayed on the real engine every run). Differentially validated "
      "only: model == real code (every real get_reverse_adjustments call; single-action update/remove/AddReverseColumn "
      "bundles through updateX/removeX/rebuildY vs the engine's cells or error class) and the engine level: Sym on every "
      "linked pair after every successful bundle of seeded histories (edits of either side, removals, type switches, "
      "link creation/removal, undo), rejected UniqueReferenceError bundles leave no trace.",
      "Sym ranges over existing rows (dangling ids are supported values); row ids positive; theorems are per pair and per "
      "action writing one side; record additions and same-table both-sides writes are oracle-only. Three recorded findings "
      "(known_findings.json): same row named twice in a bulk update; one action writing both columns of a same-table "
      "pair; row added under an id a dangling two-way reference points to.",
      "Lean 4 theorems (set algebra over association lists, strict-sortedness for the uniqueness check) + differential correspondence + direct oracle on a live engine")

  reg("C12", "proof",
      "The maintenance of a summary table by formula side effects is modelled (GristModel/SummaryModel.lean): the private helper "
      "column #summary#<table> (_updateSummary: lookupOrAddDerived for simple tables; set() + sorted(itertools.product()) + one "
      "BulkAddRecord for tables grouped by ChoiceList/RefList columns, the early `return []` for non-list cells, the "
      "is_triggered_by_table_action guard), row-id allocation, `group` = ascending lookup of the helper column "
      "(getSummarySourceGroup) with setAutoRemove, and apply_auto_removes. Proved for ALL source tables, group-by column sets "
      "(scalar / ChoiceList / RefList in any combination) and ALL batches of source edits: summary_maintain (from an exact "
      "summary table and a consistent helper column, re-evaluating the helper for any superset of the added/changed/removed "
      "rows, `group` for the summary rows whose lookup changed, and removing marked rows gives an exact summary table of the new "
      "source and again a consistent helper column), summary_build (creation from scratch), no_duplicate_keys / "
      "helper_cell_exact (one helper evaluation never adds an existing key and refers to exactly the rows with one of the "
      "source row's keys), keysOf_distinct / mem_keysOf / mem_cellKeys / codeKeys_exact (keys of a row = cartesian product of "
      "the distinct elements, '' / 0 for an empty list, none for a non-list value; the code's sorted product enumerates exactly "
      "them, once), group_sorted / group_unique / maintain_no_empty_group, checkExact_iff (the executable predicate the driver "
      "evaluates on real documents is SummaryExact), guard_blocks_adds (negation: under the guard a key is left without a row). "
      "Differentially validated only: that the model equals the engine -- on every record-edit bundle of the histories the model "
      "must reproduce the real summary table (row ids, keys, groups), the real helper column and the rows added/removed by the "
      "stored actions -- and the property itself on the real engine: a Python twin of SummaryExact (and the Lean checkExact via "
      "the driver) on every summary table after every successful bundle, including regrouping (UpdateSummaryViewSection), "
      "detaching, renames, type changes and removals of group-by columns, undo. NAMED GAP: summary.py "
      "(create_new_summary_section / update_summary_section / _get_or_create_summary) and the propagation of renames/type "
      "changes to group-by columns are not modelled; they are checked by the evaluated predicate only.",
      "Key equality = equality of the engine's lookup key of the summary column (rich value after conversion, references by row "
      "id, alt text by text; taken from the live column objects; NaN excluded); a source cell holding an error contributes no "
      "key. Model tie restricted to record-edit bundles with unchanged summary structure, data (non-formula) group-by columns, no error/list-in-scalar cells, no "
      "pending recomputation left by a rejected bundle, no key rewritten in place by reference clean-up. Model values are "
      "interned by the harness; dirtied rows are evaluated in ascending row id order; is_triggered_by_table_action was never "
      "observed True while a helper formula ran (counted every run). Six recorded findings (known_findings.json): stale groups "
      "when a group-by cell becomes an error; list values in a non-list group-by column; negative references; a group-by formula "
      "column recalculated after its helper cell (stale key); renaming / grouping by a source column called `group`. quick: 20 histories x 26 bundles; "
      "thorough: 1000 histories.",
      "Lean 4 theorems (invariant of the helper column + fold over dirtied rows) + differential correspondence on a live engine + direct oracle on histories")
