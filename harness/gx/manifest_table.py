NOT_APPLICABLE = {}

def register(reg):
  reg("C36", "proof",
      "fix_indents is modelled exactly (a 6-line fold); fix_valid/fix_never_deeper/fix_step/fix_greatest/fix_noop_of_valid "
      "are proved for all page lists and removal sets; the model is diffed with treeview.fix_indents on an exhaustive "
      "small scope plus random lists, and the property clauses are evaluated on the real outputs.",
      "page ids distinct; indentations non-negative ints; engine-level path (_removePageRecords) exercised by histories.",
      "Lean 4 theorem by induction over the page list + differential correspondence")
