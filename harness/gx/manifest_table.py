NOT_APPLICABLE = {}

def register(reg):
  reg("C36", "proof",
      "fix_indents is modelled exactly (a 6-line fold); fix_valid/fix_never_deeper/fix_step/fix_greatest/fix_noop_of_valid "
      "are proved for all page lists and removal sets; the model is diffed with treeview.fix_indents on an exhaustive "
      "small scope plus random lists, and the property clauses are evaluated on the real outputs.",
      "page ids distinct; indentations non-negative ints; engine-level path (_removePageRecords) exercised by histories.",
      "Lean 4 theorem by induction over the page list + differential correspondence")

  reg("C21", "proof",
      "identifiers.py is modelled exactly after Unicode normalisation (regex substitutions, lstrip, prefixing, "
      "capitalisation, keyword loop, numeric suffix loop, the A..Z,AA.. generator, the batch loop). Proved for ALL "
      "strings and ALL avoid sets: every loop terminates (fuel |avoid|+1 resp. |keywords|+1 suffices, pigeonhole: "
      "add_suffix_terminates, gen_ident_fresh, sanitize_shape); pick_col_ident/pick_table_ident/pick_col_ident_list "
      "return ids of shape [A-Za-z][A-Za-z0-9_]* that are not keywords, whose upper-case form is not in the avoid "
      "set, table ids starting upper-case, batch ids pairwise different case-insensitively (pick_col_valid, "
      "pick_table_valid, pick_list_valid); valid unused names are returned unchanged (pick_col_fixpoint, "
      "pick_table_fixpoint, pick_list_fixpoint). Differentially validated only: that the model equals the real "
      "functions (all pick_* and helper functions on Unicode-heavy random inputs plus all strings <=3/4 over a small "
      "alphabet), and the property clauses re-evaluated on the real outputs with str.isidentifier/keyword.iskeyword.",
      "Parameters (computed by the harness with the same stdlib calls, not modelled): NFKD normalisation + removal of "
      "combining characters, str.upper on the avoid set (idempotence re-validated over all code points every run), "
      "keyword.kwlist (regenerated into lean/Generated/Keywords.lean every run; proofs need only: no keyword ends "
      "in a digit or is all upper-case, re-proved by decide). 'Valid' = ASCII identifier shape; 'case-insensitive' "
      "= equality of str.upper forms (differs from casefold only for non-ASCII existing names such as U+212A). "
      "Engine-level use (AddColumn/AddTable) exercised separately.",
      "Lean 4 theorems (induction + pigeonhole termination) + differential correspondence + direct oracle")

  reg("C35", "proof",
      "schedule.py (parser recognisers, Delta, _round_down_to_unit, Schedule.series) and DATE of date.py are modelled over "
      "integer microseconds with proleptic-Gregorian civil arithmetic (daysFromCivil/civilFromDays round trips, month lengths "
      "28..31 and year>=1900 proved).  Proved for ALL starts/ends/counts: series_spec_fixed / series_spec_months / series_exact "
      "(result = first `count` elements, strictly increasing, of {unit boundary + k*interval + slot} inside [start,end], nothing "
      "skipped) for interval >= 1 and slots increasing inside one interval; boundary_fixed/boundary_monthly; termination within "
      "count+2 passes; parse_error_value_partial (a rejected string whose numeric fields are <= 10^7 is a ValueError); and the NEGATIONS with concrete witnesses for an interval of 0 units (never terminates), boundaries before "
      "1900 (DATE adds 1900) and OverflowError from large numerals.  Only differentially validated: that the hand-written model "
      "equals the Python (parsed structure, error class and generated times on structured, unordered, invalid, junk and exhaustive "
      "token streams), the ValueError class of invalid strings, zone-aware starts (oracle only).",
      "naive/UTC starts modelled; zone-aware starts oracle-only; ASCII strings; occurrences representable (year<=9999); "
      "theorem hypotheses: boundary >= 1900-01-01, interval >= 1; month-based slots proved for offsets < 28 days (others via the "
      "semantic precondition InOrder of series_exact). Four recorded findings (known_findings.json).",
      "Lean 4 theorems by induction over the generator loop + omega calendar arithmetic; differential correspondence; brute-force oracle")

  reg("C14", "proof",
      "SortKey.__lt__ (incl. the type-rank fallback), Python's bisect_left/right, RecordSet._at/_bisect_find/_find_eq, "
      "FindOps.lt/le/gt/ge/eq/previous/next/rank and PREVIOUS/NEXT/RANK/_sorted_lookup are modelled line by line "
      "(GristModel/SortedFind.lean). Proved for all inputs: bisect_left_spec/bisect_right_spec (index = number of elements "
      "strictly before / not after the probe, for any list sorted by any strict weak order), keyLt_strictWeakOrder "
      "(SortKey order is a strict weak order on None/bool/int/str keys with '-' flags), find_lt|le|gt|ge|eq_scan (each find "
      "op equals the linear scan of the ordered set under the same comparison, search values of any length), lookup_sorted / "
      "lookup_sorted_unique (the ordered group is the unique sorted permutation), previous_next_rank_spec (own index found "
      "because row id is the last sort component; neighbour / 1-based rank, asc and desc). Differentially validated only: "
      "that the model matches the real code - every case is run through a live engine (formula columns using find.*, "
      "PREVIOUS/NEXT/RANK, 9 order_by variants, with/without group_by) and through the compiled model, and an independent "
      "linear-scan oracle is evaluated on the engine's outputs.",
      "values None/bool/int/str (no floats/NaN, lists, dates); manualSort positions distinct integers; row ids distinct positive; "
      "tables <= 6 rows; thorough adds all key sequences of length <= 5 over [None, True, 1, 'a'] x 34 probes; lookup index "
      "maintenance and type conversion of lookup keys are not modelled (C13/C05).",
      "Lean 4 theorems (binary search over a prefix-closed predicate + lexicographic strict weak order) + differential correspondence through a live engine")
