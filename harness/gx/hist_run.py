"""
Shared history runner: generates a document + history, applies it to the real engine with the
step-word recorder on, and evaluates the *direct oracles* (the properties themselves on the real
code) selected by the caller.  Returns per-bundle records for the model correspondence.

Oracles (each returns a list of (property, signature, detail)):
  undo     C01  ApplyUndoActions(undo) restores every table exactly
  replica  C02  an independent interpreter fed only `stored` equals the engine
  redo     C03  undo then ApplyDocActions(stored) gives the post-bundle state
  failed   C04  a rejected bundle leaves no trace (natural failures)
  schema   C08  engine.schema == schema built from metadata, no stray columns
  direct   C31  direct flags parallel to stored (+ classification, see c31.py)
"""
import copy
import json
import random

from gx import engine_driver as ed
from gx.gen_hist import Gen, World


def type_default_tok(doc, tid, cid):
  """Token a missing cell reads as: the column type's default (asked from the live column object;
  used only for comparing the replica where a stored action omitted a default-valued column)."""
  try:
    col = doc.engine.tables[tid].get_column(cid)
    return ed.ntok(ed.tokv(col.getdefault()))
  except Exception:
    return None


class HistoryRun(object):
  def __init__(self, rng, profile=None, formulas=True, n_bundles=15, oracles=("undo", "replica", "schema"),
               hostile_names=False, setup=None, tie=None):
    self.rng = rng
    self.gen = Gen(rng, profile, formulas=formulas)
    self.gen.hostile_names = hostile_names
    self.n_bundles = n_bundles
    self.oracles = set(oracles)
    self.doc = ed.Doc()
    self.replica = ed.PyReplica()
    self.findings = []        # (property, signature, detail, replay)
    self.bundles = []         # dicts: actions, kinds, result
    self.log = []             # every bundle applied to self.doc (for replay)
    self.log_faults = {}      # log index -> fault site number injected while applying that entry
    self.stats = {"bundles": 0, "ok": 0, "rejected": 0, "errors": {}, "stored_actions": 0,
                  "undo_checks": 0, "nontrivial": 0}
    # feed InitNewDoc's stored actions to the replica
    self._init_replica()
    self.setup = setup
    self.extra_oracles = []
    self.tie = tie
    if tie is not None:
      tie.init(self.doc)

  def _raw(self, uas):
    """Every bundle applied to the real engine goes through here (recorded, logged, tied)."""
    res = self.doc.apply(uas)
    self.log.append(copy.deepcopy(uas))
    if self.tie is not None:
      self.tie.bundle(self.doc, res, len(self.log) - 1)
    return res

  def _init_replica(self):
    d0 = ed.Doc(init=False)
    r = d0.apply([["InitNewDoc"]])
    for a in r.stored:
      self.replica.apply(a)
    self.init_stored = r.stored

  def replay_obj(self, upto=None):
    return {"history": copy.deepcopy(self.log if upto is None else self.log[:upto]),
            "faults": {str(k): v for k, v in self.log_faults.items()}}

  def apply(self, uas, kinds=()):
    """Apply one bundle to the real engine and run the oracles."""
    doc = self.doc
    need_before = self.oracles & {"undo", "failed", "redo"}
    before = doc.snapshot() if need_before else None
    schema_before = doc.engine_schema() if "failed" in self.oracles else None
    res = self._raw(uas)
    self.stats["bundles"] += 1
    rec = {"actions": uas, "kinds": list(kinds), "res": res, "before": before, "log_index": len(self.log) - 1}
    self.bundles.append(rec)
    if res.ok:
      self.stats["ok"] += 1
      self.stats["stored_actions"] += len(res.stored)
      self.gen.past.append((res.raw_stored, res.raw_undo))
      if len(self.gen.past) > 3 and self.gen.past[0][1]:
        self.gen.old_undos.append(self.gen.past[0][1])
        self.gen.old_undos = self.gen.old_undos[-4:]
      self.gen.past = self.gen.past[-3:]
      after = doc.snapshot()
      rec["after"] = after
      if "replica" in self.oracles:
        self._o_replica(rec, after)
      if "schema" in self.oracles:
        self._o_schema(rec, "after successful bundle")
      if "direct" in self.oracles:
        if len(res.direct) != len(res.stored):
          self._find("C31", "direct list not parallel to stored", "%d vs %d" % (len(res.direct), len(res.stored)), rec)
      for f in self.extra_oracles:
        f(self, rec)
      if "undo" in self.oracles and res.undo is not None:
        self._o_undo_redo(rec, before, after)
    else:
      self.stats["rejected"] += 1
      k = res.error[0]
      self.stats["errors"][k] = self.stats["errors"].get(k, 0) + 1
      if "failed" in self.oracles:
        self._o_failed(rec, before, schema_before)
      else:
        # settle the document: the engine does not recalculate after a rollback (C04's recorded finding, judged by
        # C04's own check), so formula cells touched by the failed bundle are dirty until the next calculation;
        # without this the NEXT bundle's "before" snapshot would hold those transient values
        c = self._raw([["Calculate"]])
        if c.ok and "replica" in self.oracles:
          for a in c.stored:
            self.replica.apply(a)
        self.stats["settling_calculates"] = self.stats.get("settling_calculates", 0) + 1
    return rec

  def apply_with_faults(self, uas, kinds=(), max_sites=10):
    """Fault enumeration (C04): re-run the bundle with an injected exception at site k = 0, 1, ..
    (each faulted run must leave no trace), until a run completes without the fault firing; that
    run is the real application of the bundle."""
    k = 0
    stride = 1
    while True:
      fault = ed.FaultAt(k)
      doc = self.doc
      before = doc.snapshot()
      schema_before = doc.engine_schema()
      ed.REC.fault = fault
      try:
        res = self._raw(uas)
      finally:
        ed.REC.fault = None
      if fault.fired is not None:
        self.log_faults[len(self.log) - 1] = k
      if fault.fired is None or res.ok:
        # the real application (or the fault was swallowed, e.g. inside a formula evaluation)
        self.stats["bundles"] += 1
        rec = {"actions": uas, "kinds": list(kinds), "res": res, "before": before,
               "log_index": len(self.log) - 1}
        self.bundles.append(rec)
        if fault.fired is not None:
          self.stats["faults_swallowed"] = self.stats.get("faults_swallowed", 0) + 1
        if res.ok:
          self.stats["ok"] += 1
          self.gen.past = [(res.raw_stored, res.raw_undo)]
          rec["after"] = doc.snapshot()
          if "replica" in self.oracles:
            self._o_replica(rec, rec["after"])
          if "schema" in self.oracles:
            self._o_schema(rec, "after successful bundle")
        else:
          self.stats["rejected"] += 1
          self.stats["errors"][res.error[0]] = self.stats["errors"].get(res.error[0], 0) + 1
          self._o_failed(rec, before, schema_before)
        return rec
      # a faulted run: the bundle raised because of the injected exception
      self.stats["faulted_runs"] = self.stats.get("faulted_runs", 0) + 1
      site = "%s %s" % fault.fired
      self.stats.setdefault("fault_sites", {})
      self.stats["fault_sites"][site] = self.stats["fault_sites"].get(site, 0) + 1
      rec = {"actions": uas, "kinds": list(kinds) + ["fault:" + site], "res": res, "before": before,
             "log_index": len(self.log) - 1, "fault": [k, site]}
      if any(st[0] == "doc" and st[3] == "ok" for st in (res.steps or [])):
        rec["nontrivial"] = True
        rec["nontrivial_key"] = [uas, site, k]
      self.bundles.append(rec)
      n0 = len(self.findings)
      self._o_failed(rec, before, schema_before, fault=[k, site])
      if len(self.findings) > n0:
        rec["abandon"] = True
        return rec
      k += stride
      if k >= max_sites:
        stride = 3      # beyond the first sites, sample every third one

  def _find(self, prop, sig, detail, rec, extra=None):
    rp = self.replay_obj()
    rp["bundle_index"] = rec.get("log_index", len(self.log) - 1)
    # the bundles REQUESTED so far (without the undo / redo / Calculate bundles the oracles applied in between):
    # what a regression-corpus entry is made of (harness/gx/corpus, `run_corpus`)
    rp["user_bundles"] = [copy.deepcopy(r_["actions"]) for r_ in self.bundles
                          if "fault" not in r_ and r_.get("actions") is not None and r_ is not rec]
    if rec.get("actions") is not None:
      rp["user_bundles"].append(copy.deepcopy(rec["actions"]))
    if extra:
      rp.update(extra)
    self.findings.append((prop, sig, detail, rp))

  # ---------------------------------------------------------------- oracles
  def _o_replica(self, rec, after):
    rep = self.replica
    n0 = len(rep.problems)
    for a in rec["res"].stored:
      rep.apply(a)
    if len(rep.problems) > n0:
      self._find("C02", classify_replica_problem(rep.problems[n0]), "; ".join(rep.problems[n0:n0 + 3]), rec)
      del rep.problems[n0:]
    diffs = rep.compare(after, lambda t, c: type_default_tok(self.doc, t, c))
    if diffs:
      self._find("C02", classify_diff("replica", diffs[0]), "; ".join(diffs[:3]), rec)
      # resynchronise the replica so that one divergence is reported once
      self._resync_replica(after)

  def _resync_replica(self, snap):
    rep = ed.PyReplica()
    for tid, t in snap.items():
      rep.tables[tid] = {"rows": set(t["ids"]), "types": self._types_of(tid),
                         "cols": {c: dict(zip(t["ids"], vals)) for c, vals in t["cols"].items() if c != "id"}}
    self.replica = rep

  def _types_of(self, tid):
    try:
      return {cid: c.type for cid, c in self.doc.engine.schema[tid].columns.items()}
    except Exception:
      return {}

  def _o_schema(self, rec, when):
    doc = self.doc
    es, ms = doc.engine_schema(), doc.meta_schema()
    if es != ms:
      d = schema_diff(es, ms)
      self._find("C08", "engine schema differs from metadata " + when + ": " + d[0], d[1], rec)
      return
    mt = doc.engine.fetch_table('_grist_Tables')
    mc = doc.engine.fetch_table('_grist_Tables_column')
    stray = set(mc.columns['parentId']) - set(mt.row_ids)
    if stray:
      self._find("C08", "column record belongs to nonexistent table " + when, "parentIds %r" % sorted(stray), rec)

  def _o_undo_redo(self, rec, before, after):
    """Undo the bundle on the real engine, compare with `before`; then redo (C03) and compare with
    `after`; the document ends in the post-bundle state again (so the history continues)."""
    doc = self.doc
    res = rec["res"]
    self.stats["undo_checks"] += 1
    if len(res.stored) >= 2 and len(res.undo) >= 2 and len(set(a[0] for a in res.stored)) >= 2:
      self.stats["nontrivial"] += 1
      rec["nontrivial"] = True
    u = self._raw([["ApplyUndoActions", res.raw_undo]])
    if not u.ok:
      self._find("C01", "undo actions rejected: " + u.error[0], u.error[1], rec)
      rec["undo_failed"] = True
      return
    if "replica" in self.oracles:
      for a in u.stored:
        self.replica.apply(a)
      del self.replica.problems[:]
    mid = doc.snapshot()
    drift_mid = ed.numeric_drift(before, mid)
    d = ed.diff_snapshots(before, mid)
    if d:
      drift = ed.numeric_drift(before, mid)
      if circ_order_only(doc, d):
        self._find("C01", CIRC_ORDER_SIG % "undo", "; ".join(d[:3]), rec)
      elif stale_lookup_only(doc, d):
        self._find("C01", STALE_LOOKUP_SIG % "undo", "; ".join(d[:3]), rec)
      elif decoded_error_only(d):
        self._find("C01", DECODED_ERROR_SIG % "undo", "; ".join(d[:3]), rec)
      elif drift:
        self._find("C01", DRIFT_SIG % "undo", "%s; drift at %r" % ("; ".join(d[:2]), drift[:2]), rec)
      else:
        self._find("C01", classify_diff("undo", d[0], rec), "; ".join(d[:3]), rec)
    if "schema" in self.oracles:
      self._o_schema(rec, "after undo")
    # redo
    r = self._raw([["ApplyDocActions", res.raw_stored]])
    if not r.ok:
      if "redo" in self.oracles:
        if drift_mid:
          # the undo left numbers of the other numeric type behind (drift finding); summary rows keyed by such a
          # column were re-created by the engine, and the stored actions' own additions of those rows then collide
          self._find("C03", DRIFT_SIG % "redo", "redo rejected: %s %s; drift after the undo at %r" % (
            r.error[0], r.error[1][:120], drift_mid[:2]), rec)
        else:
          self._find("C03", "redo (ApplyDocActions of stored) rejected: " + r.error[0], r.error[1], rec)
      # restore the post state by re-applying the original user actions is not guaranteed; abandon history
      rec["abandon"] = True
      return
    if "replica" in self.oracles:
      for a in r.stored:
        self.replica.apply(a)
      del self.replica.problems[:]
    post = doc.snapshot()
    d2 = ed.diff_snapshots(after, post)
    if d2:
      if "redo" in self.oracles:
        drift = ed.numeric_drift(after, post)
        if circ_order_only(doc, d2):
          self._find("C03", CIRC_ORDER_SIG % "redo", "; ".join(d2[:3]), rec)
        elif stale_lookup_only(doc, d2):
          self._find("C03", STALE_LOOKUP_SIG % "redo", "; ".join(d2[:3]), rec)
        elif decoded_error_only(d2):
          self._find("C03", DECODED_ERROR_SIG % "redo", "; ".join(d2[:3]), rec)
        elif drift_mid and not drift:
          # the undo already left numbers of another numeric type behind (C01's drift finding);
          # whatever the redo then computes differently (e.g. summary rows re-keyed) follows from it
          self._find("C03", DRIFT_SIG % "redo", "%s; drift after the undo at %r" % ("; ".join(d2[:2]), drift_mid[:2]), rec)
        elif ed.numeric_drift(before, after) and \
            set(x.split(" ")[1].split("[")[0].split(".")[0] for x in d2 if " " in x) <= set(c_[0] for c_ in ed.numeric_drift(before, after)):
          # the ORIGINAL bundle changed cells of these tables only in int-vs-float (0.0 -> 0 when a group-by column
          # became a reference), a change that equal_encoding drops from `stored` (the recorded drift finding): the
          # redo, made of `stored` alone, keeps the old numbers there, and the summary rows keyed by them are
          # re-created under other ids.  Only differences inside the tables that hold such cells are attributed.
          self._find("C03", DRIFT_SIG % "redo", "%s; the bundle's own int-vs-float changes absent from stored: %r" % (
            "; ".join(d2[:2]), ed.numeric_drift(before, after)[:2]), rec)
        elif drift:
          # cells that differ only in int-vs-float after the redo (the stored actions left the conversion out);
          # summary rows keyed by such a column are then re-created under other ids: same finding
          self._find("C03", DRIFT_SIG % "redo", "%s; drift at %r" % ("; ".join(d2[:2]), drift[:2]), rec)
        else:
          self._find("C03", classify_diff("redo", d2[0], rec), "; ".join(d2[:3]), rec)
      rec["abandon"] = True
      if "replica" in self.oracles:
        self._resync_replica(post)
    if "schema" in self.oracles:
      self._o_schema(rec, "after redo")
    # keep "past" pointing at the redo bundle (its undo is what undoes the current state)
    self.gen.past = [(r.raw_stored, r.raw_undo)]

  def _o_failed(self, rec, before, schema_before, fault=None):
    doc = self.doc
    now = doc.snapshot()
    d = ed.diff_snapshots(before, now)
    extra = {"fault": fault} if fault else None
    cause = classify_failed(rec, fault, doc) or (NUMERIC_NORMALISED_SIG if d and numeric_only(d) else None)
    if cause is None and d and modified_formula_column_only(rec, d, schema_before):
      cause = MODIFY_FORMULA_STALE_SIG
    if cause is None and d and json_list_parsed_only(d):
      cause = JSON_LIST_PARSED_SIG
    drift = ed.numeric_drift(before, now)
    if cause is None and drift and not d:
      # the rolled-back type change left numbers of the other numeric type behind (C01/C03's drift finding: the
      # conversion back is not recorded because the encodings are equal); formulas then see alt text
      cause = DRIFT_SIG % "failed-bundle"
    tag = (" (injected fault at %s)" % fault[1]) if fault else ""
    schema_changed = doc.engine_schema() != schema_before
    self._o_schema(rec, "after rollback")
    c = self._raw([["Calculate"]])
    # One mechanism behind several recorded findings: the failure path of apply_user_actions rolls the DATA back
    # but does not recalculate, so formula cells evaluated (or reset) during the failed bundle keep those values,
    # still marked dirty, until the next bundle - whose calculation then emits the corrections.  It is recognised
    # by its exact footprint: only cells of formula columns differ after the rollback, the schema is intact, and
    # the next Calculate brings the document back to the state before the bundle.
    if cause is None and c.ok and not schema_changed and (d or c.stored) and \
        all(formula_cell(x, schema_before) for x in d) and \
        all(a[0] in ("UpdateRecord", "BulkUpdateRecord") and
            all(formula_col(schema_before, a[1], cid) for cid in a[3]) for a in (c.raw_stored or [])) and \
        not ed.diff_snapshots(before, doc.snapshot()):
      cause = NO_RECALC_AFTER_ROLLBACK_SIG
    if d:
      self._find("C04", (cause or classify_diff("failed-bundle", d[0], rec) + tag), "; ".join(d[:3]), rec, extra)
    if schema_changed:
      self._find("C04", cause or ("engine schema changed by a rejected bundle" + tag), rec["res"].error[0], rec, extra)
    if not c.ok:
      self._find("C04", cause or ("Calculate fails after a rejected bundle: " + c.error[0] + tag), c.error[1], rec, extra)
    elif c.stored:
      if cause is None and all("_summary" in a[1] for a in c.stored):
        cause = SUMMARY_STALE_SIG
      if cause is None and not d and any(ua[0] in ("RemoveRecord", "BulkRemoveRecord") for ua in rec["actions"]) and \
          all(a[0] in ("UpdateRecord", "BulkUpdateRecord") and
              all(trigger_col(schema_before, a[1], cid) for cid in a[3]) for a in (c.raw_stored or [])):
        cause = TRIGGER_AFTER_ROLLBACK_SIG
      self._find("C04", cause or ("Calculate emits changes after a rejected bundle" + tag),
                 json.dumps(c.stored[:2])[:300], rec, extra)
      if "replica" in self.oracles:
        for a in c.stored:
          self.replica.apply(a)

  # ---------------------------------------------------------------- driving
  def end(self):
    """Full-document comparison at the end of the history (partial ones ran per bundle)."""
    if self.tie is not None:
      res = self.doc.apply([["Calculate"]])
      self.log.append([["Calculate"]])
      self.tie.bundle(self.doc, res, len(self.log) - 1, full=True)

  def run_corpus(self, bundles):
    """Apply a recorded list of requested bundles (a regression-corpus entry) with all of this run's oracles."""
    for uas in bundles:
      uas = copy.deepcopy(uas)
      if "faults" in self.oracles:
        rec = self.apply_with_faults(uas, ["corpus"])
      else:
        rec = self.apply(uas, ["corpus"])
      if rec.get("abandon") or rec.get("undo_failed"):
        break
    self.end()
    return self

  def run(self):
    gen = self.gen
    for b in gen.initial_bundles():
      self.apply(b, ["init_table"])
    if self.setup:
      for b in self.setup(self):
        self.apply(b, ["setup"])
    for _ in range(self.n_bundles):
      uas, kinds = gen.bundle(self.doc)
      if not uas:
        continue
      if "faults" in self.oracles:
        rec = self.apply_with_faults(uas, kinds)
      else:
        rec = self.apply(uas, kinds)
      if rec.get("abandon") or rec.get("undo_failed"):
        break
    self.end()
    return self


NUMERIC_NORMALISED_SIG = ("failed-bundle: rollback of a type change re-normalises a number that an earlier type change "
                          "had left stored with another numeric type (e.g. 0.0 in a Bool column becomes False)")
SUMMARY_STALE_SIG = ("after a rolled-back bundle that touched a summary table's source, the next Calculate removes and "
                     "re-adds or updates summary rows (auto-remove marks / dirty summary cells survive the rollback)")


def _numval(t):
  if isinstance(t, bool):
    return float(t)
  if isinstance(t, str) and t[:1] in "if":
    try:
      return float(t[1:])
    except ValueError:
      return None
  return None


def numeric_only(diffs):
  """All differences are cells whose two values are numerically equal (True/1/1.0)."""
  import re
  for d in diffs:
    m = re.match(r"cell \S+: (.*) vs (.*)$", d)
    if not m:
      return False
    try:
      a, b = eval(m.group(1)), eval(m.group(2))
    except Exception:
      return False
    va, vb = _numval(a), _numval(b)
    if va is None or vb is None or va != vb:
      return False
  return True


JSON_LIST_PARSED_SIG = ("failed-bundle: rollback of a type change to a list type leaves a JSON-list-looking string parsed into a "
                        "list (the list column's set() parsed it while the data passed through the new column)")
TRIGGER_AFTER_ROLLBACK_SIG = ("rejected bundle that removed and re-added records: the rollback's re-added records count as new, and "
                              "the next calculation runs their trigger (default-value) formulas over the restored values")


def trigger_col(schema, tid, cid):
  info = (schema or {}).get(tid, {}).get(cid)
  return bool(info and not info[1] and info[2])


def json_list_parsed_only(diffs):
  """Every difference is a cell holding a JSON-list-looking STRING on one side and the list it parses to on the other."""
  import re
  from gx.model_tie import jnorm
  for d in diffs:
    m = re.match(r"cell \S+: (.*) vs (.*)$", d)
    if not m:
      return False
    try:
      a, b = eval(m.group(1)), eval(m.group(2))
    except Exception:
      return False
    if a == b or not (isinstance(a, str) and isinstance(b, str)):
      return False
    if not ((a.startswith("s[") and b.startswith("o[")) or (b.startswith("s[") and a.startswith("o["))):
      return False
    sa, ob = (a, b) if a.startswith("s[") else (b, a)
    try:
      lst = json.loads(sa[1:])
      got = json.loads(ob[1:])
    except ValueError:
      return False
    if not (isinstance(got, list) and got[:1] == ["L"] and got[1:] == lst):
      return False
  return True


NO_RECALC_AFTER_ROLLBACK_SIG = ("rejected bundle: the rollback restores the data but does not recalculate; formula cells evaluated or "
                                "reset during the failed bundle keep those values until the next bundle, whose calculation "
                                "brings the document back to the state before (only formula cells differ, schema intact)")


def formula_col(schema, tid, cid):
  info = (schema or {}).get(tid, {}).get(cid)
  return bool(info and info[1])


def formula_cell(diff, schema):
  import re
  m = re.match(r"cell (\w+)\[\d+\]\.(\S+): ", diff)
  return bool(m and formula_col(schema, m.group(1), m.group(2)))


MODIFY_FORMULA_STALE_SIG = ("rollback after ModifyColumn of a formula column: the user action brings the column up to date "
                            "with the bundle's data before the failing step, and the cells keep those values after the "
                            "rollback until the next calculation")


def modified_formula_column_only(rec, diffs, schema_before):
  """Every difference is a cell of a FORMULA column that a ModifyColumn of the rejected bundle names."""
  import re
  named = set((ua[1], ua[2]) for ua in rec["actions"] if ua[0] == "ModifyColumn" and len(ua) >= 3)
  if not named:
    return False
  for d in diffs:
    m = re.match(r"cell (\w+)\[\d+\]\.(\S+): ", d)
    if not m or (m.group(1), m.group(2)) not in named:
      return False
    info = (schema_before or {}).get(m.group(1), {}).get(m.group(2))
    if not info or not info[1]:
      return False
  return True


def classify_failed(rec, fault, doc):
  """Specific cause classes of a rejected bundle that left a trace (None = unclassified)."""
  steps = rec["res"].steps or []
  kinds = [st[0] for st in steps]
  if "rollback" not in kinds and any(k in ("doc", "calc") for k in kinds):
    return ("exception in a doc action performed after the try block of apply_user_actions "
            "(recalculation / auto-removes): no rollback is attempted")
  docs = [st for st in steps if st[0] == "doc"]
  pre = []
  for st in steps:
    if st[0] == "rollback":
      break
    if st[0] == "doc":
      pre.append(st)
  if fault and fault[1].startswith("usercode") and pre and pre[-1][3] == "raised" \
      and pre[-1][1][0] in ("ModifyColumn",):
    return ("exception from rebuild_usercode inside the %s doc action: the column's data is lost "
            "(the restored schema gets a fresh column object)" % pre[-1][1][0])
  in_rb = False
  for st in steps:
    if in_rb and st[0] == "doc" and st[3] == "raised" and pre and pre[-1][3] == "raised":
      return ("rollback aborted: the %s doc action failed after recording part of its undo, and replaying that "
              "undo raises" % pre[-1][1][0])
    if st[0] == "rollback":
      in_rb = True
    elif st[0] == "rollback-done":
      in_rb = False
    elif in_rb and st[0] == "doc" and st[1][0] == "AddColumn" and st[1][3].get("isFormula"):
      return ("rollback of RemoveColumn of a formula column re-creates it with default values until the next "
              "calculation (its values were only in the calc summary, which the rollback does not flush)")
    elif in_rb and st[0] == "doc" and st[1][0] == "AddTable" and any(c.get("isFormula") for c in st[1][2]):
      return ("rollback of RemoveTable re-creates the table's formula columns; values dirty until the next calculation")
  if any(st[1][0] == "ReplaceTableData" and st[3] == "ok" for st in pre):
    return ("rollback of ReplaceTableData leaves the table's formula columns at their defaults until the "
            "next calculation (its undo action carries data columns only)")
  return None


CIRC = 'o["E", "CircularRefError"]'
CIRC_ORDER_SIG = ("%s: cells hold CircularRefError on one side and a value on the other in a table whose formula columns "
                  "depend on each other through lookup indexes (column-level cycle): the engine's result depends on "
                  "evaluation order / history")


def circ_order_only(doc, diffs):
  """Differences caused by a column-level cycle through lookup indexes: at least one cell has
  CircularRefError on exactly one side, every difference is in a table that has a lookup formula
  (cycles made of plain cell references are C18's exhaustive domain), and any further difference is a
  FORMULA cell (a consequence: its inputs include the cells above), never a data cell or a non-cell one."""
  import re
  if not diffs:
    return False
  sch = doc.engine_schema()
  one_sided = 0
  cyc = None
  for d in diffs:
    m = re.match(r"cell (\w+)\[\d+\]\.(\S+): (.*) vs (.*)$", d)
    if not m:
      return False
    if cyc is None:
      cyc = lookup_cycle_columns(sch)
    if (m.group(1), m.group(2)) in cyc:
      # the cell is on or below a column-level cycle through a lookup index: whatever it holds (a value, a
      # CircularRefError, another value) depends on the order / history in which the cycle was entered
      one_sided += 1
      continue
    if not any("lookup" in (c[2] or "") for c in sch.get(m.group(1), {}).values()):
      return False
    if (CIRC in m.group(3)) != (CIRC in m.group(4)):
      one_sided += 1
      continue
    info = sch.get(m.group(1), {}).get(m.group(2))
    if not info or not info[1]:
      return False
  return one_sided > 0


EMPTY_KEY_CHANGE_SIG = ("%s: lookup result computed while the looked-up table was empty is not recomputed when the key column "
                        "is re-created by ModifyColumn (the C13 finding: no row exists to carry the invalidation)")


UNHASHABLE_KEY_NO_DEP_SIG = ("%s: a lookup that raised TypeError (unhashable key) recorded no dependency: it is not recomputed when "
                             "ModifyColumn re-creates the key column")


def empty_table_key_change_only(doc, diffs, actions, type_error=False):
  """Every difference is a formula cell whose formula looks up an EMPTY table by a column that a ModifyColumn (or
  a type / isFormula update of its metadata record) of this bundle re-created."""
  import re
  sch = doc.engine_schema()
  changed = set((ua[1], ua[2]) for ua in actions if ua[0] == "ModifyColumn" and len(ua) >= 3)
  crecs = dict((c["id"], c) for c in doc.meta("_grist_Tables_column"))
  tname = dict((t["id"], t["tableId"]) for t in doc.meta("_grist_Tables"))
  for ua in actions:
    if ua[0] in ("UpdateRecord", "BulkUpdateRecord") and ua[1] == "_grist_Tables_column":
      for r in (ua[2] if isinstance(ua[2], list) else [ua[2]]):
        c = crecs.get(r)
        if c:
          changed.add((tname.get(c["parentId"]), c["colId"]))
  if not diffs or not changed:
    return False
  for d in diffs:
    m = re.match(r"cell (\w+)\[\d+\]\.(\S+): ", d)
    info = sch.get(m.group(1), {}).get(m.group(2)) if m else None
    if not info or not info[1] or not info[2]:
      return False
    hit = False
    for lm in re.finditer(r"(\w+)\.lookup(?:One|Records)\(([^()]*(?:\([^()]*\)[^()]*)*)\)", info[2]):
      t2 = lm.group(1)
      keys = re.findall(r"(?:^|,)\s*(\w+)\s*=", lm.group(2))
      if t2 in doc.engine.tables and any((t2, k) in changed for k in keys) and \
          (not list(doc.engine.tables[t2].row_ids) if not type_error else '"TypeError"' in d.split(" vs ")[0]):
        hit = True
    if not hit:
      return False
  return True


DECODED_ERROR_SIG = ("%s: a formula that reads an error cell restored from its ENCODING (by undo, redo or load: a decoded "
                     "RaisedException carries no exception object) reports ['E', 'NoneType'] instead of the original error class")


def decoded_error_only(diffs):
  """Every difference is a cell holding an error on both sides, one of them ['E', 'NoneType']."""
  import re
  if not diffs:
    return False
  for d in diffs:
    m = re.match(r"cell \S+: (.*) vs (.*)$", d)
    if not m:
      return False
    a, b = m.group(1), m.group(2)
    if not ('["E"' in a and '["E"' in b and (('"NoneType"' in a) != ('"NoneType"' in b))):
      return False
  return True


def lookup_cycle_columns(sch):
  """Formula columns that lie on, or depend on, a COLUMN-LEVEL cycle that passes through a lookup index
  (F reads T.lookupX(k=...) and T.k - or an order_by column, or an attribute read off the looked-up records -
  depends on F again).  Static over-approximation from the formula texts; used only to attribute differences to
  the recorded finding 'result of a lookup cycle depends on evaluation order / history'."""
  import re
  cols = set((t, c) for t in sch for c in sch[t])
  edges = {}          # (t, c) -> set of (t', c') it depends on ; via_lookup marks edges made by a lookup
  via_lookup = set()
  for t in sch:
    for c, info in sch[t].items():
      f = info[2] or ""
      if not f or not info[1]:
        continue
      deps = set()
      for name in re.findall(r"(?:\$|\brec\.)(\w+)", f):
        if (t, name) in cols:
          deps.add((t, name))
      for m in re.finditer(r"(\w+)\.lookup(?:One|Records)\(", f):
        t2 = m.group(1)
        if t2 not in sch:
          continue
        for name in re.findall(r"\b(\w+)\s*=", f[m.end():]) + re.findall(r"['\"]-?(\w+)['\"]", f[m.end():]) + \
            re.findall(r"\.(\w+)", f):
          if (t2, name) in cols:
            deps.add((t2, name)); via_lookup.add(((t, c), (t2, name)))
      edges[(t, c)] = deps
  # nodes that can reach themselves through at least one lookup edge
  def reach(src):
    seen, todo = set(), [src]
    while todo:
      x = todo.pop()
      for y in edges.get(x, ()):
        if y not in seen:
          seen.add(y); todo.append(y)
    return seen
  reachable = dict((n, reach(n)) for n in edges)
  on_cycle = set()
  for (a, b) in via_lookup:
    if a in reachable.get(b, set()) or a == b:
      on_cycle.add(a); on_cycle.add(b)
  out = set(on_cycle)
  for n in edges:
    if reachable[n] & on_cycle:
      out.add(n)
  return out


STALE_LOOKUP_SIG = ("%s: formula with a lookup keyed or ordered on a column that no longer exists held a stale result "
                    "and is now recomputed (see the C05 finding)")


def stale_lookup_formula(sch, t, c):
  """Column t.c's formula looks records up by (or orders them by) a column the target table lacks."""
  import re
  info = sch.get(t, {}).get(c)
  if not info or not info[2]:
    return False
  for m in re.finditer(r"(\w+)\.lookup(?:One|Records)\(([^()]*(?:\([^()]*\)[^()]*)*)\)", info[2]):
    tgt, args = m.group(1), m.group(2)
    if tgt not in sch:
      return True
    for kw, val in re.findall(r"(?:^|,)\s*(\w+)\s*=\s*([^,]*)", args):
      if kw in ("order_by", "sort_by"):
        for name in re.findall(r"['\"]-?(\w+)['\"]", val):
          if name not in sch[tgt] and name != "id":
            return True
      elif kw not in sch[tgt] and kw != "id":
        return True
  return False


def stale_lookup_columns(sch):
  """(table, column) pairs whose formula is a stale lookup (see stale_lookup_formula), closed under READERS: formula
  columns whose text reads such a column by name ($c, rec.c, $ref.c) carry its stale value (or its error) along."""
  import re
  stale = set((t, c) for t in sch for c in sch[t] if stale_lookup_formula(sch, t, c))
  changed = bool(stale)
  while changed:
    changed = False
    names = set(c for (_, c) in stale)
    for t in sch:
      for c, info in sch[t].items():
        if (t, c) in stale or not info[2]:
          continue
        if any(re.search(r"[\$\.]%s\b" % re.escape(n), info[2]) for n in names):
          stale.add((t, c))
          changed = True
  return stale


def stale_lookup_only(doc, diffs):
  import re
  sch = doc.engine_schema()
  if not diffs:
    return False
  stale = stale_lookup_columns(sch)
  for d in diffs:
    m = re.match(r"cell (\w+)\[\d+\]\.(\S+): ", d)
    if not m or (m.group(1), m.group(2)) not in stale:
      return False
  return True


DRIFT_SIG = ("%s: formula cells differ because a type change left numbers that differ only in int-vs-float "
             "(equal encodings, so no action recorded them) in a column whose type tells them apart")


def schema_diff(es, ms):
  for t in sorted(set(es) | set(ms)):
    if t not in es:
      return ("table only in metadata", "table %s" % t)
    if t not in ms:
      return ("table only in engine schema", "table %s" % t)
    for c in sorted(set(es[t]) | set(ms[t])):
      if c not in es[t]:
        return ("column only in metadata", "%s.%s" % (t, c))
      if c not in ms[t]:
        return ("column only in engine schema", "%s.%s" % (t, c))
      if es[t][c] != ms[t][c]:
        names = ["type", "isFormula", "formula", "reverseColId"]
        which = [names[i] for i in range(4) if es[t][c][i] != ms[t][c][i]]
        return ("column %s differs" % "/".join(which), "%s.%s engine=%r metadata=%r" % (t, c, es[t][c], ms[t][c]))
  return ("?", "")


def classify_replica_problem(p):
  # e.g. "AddRecord repeated row id in T1 [5, 5]"
  words = p.split(" ")
  return "stored action not applicable by a client: " + " ".join(words[:3])


def classify_diff(what, d, rec=None):
  """Short, specific class of a snapshot difference, e.g. 'undo: cell differs in user table data column'."""
  kind = d.split(" ")[0]
  where = ""
  if kind == "cell":
    # "cell T[3].c: a vs b"
    tname = d.split(" ")[1].split("[")[0]
    col = d.split("].", 1)[1].split(":")[0] if "]." in d else "?"
    where = ("metadata table %s.%s" % (tname, col)) if tname.startswith("_grist_") else "user table"
  elif kind == "table":
    where = "row ids / table set"
  elif kind == "column":
    where = "column set"
  acts = ""
  if rec is not None:
    acts = " after " + "+".join(sorted(set(a[0] for a in rec["actions"])))
  return "%s: %s differs in %s%s" % (what, kind, where, acts)
