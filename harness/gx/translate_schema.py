"""Translators: regenerate lean/Generated/*.lean from /repo's current tree.  `python -m gx.translate all`

C38 (gen_schema): the Python metadata schema / type defaults and the TypeScript ones as Lean data.
  Python side  : IMPORTS the tree's schema.py / usertypes.py and calls schema_create_actions(),
                 get_type_default().
  TS side      : two small independent parsers (parse_schema_ts, parse_default_values) of
                 app/common/schema.ts and app/common/gristTypes.ts.
These readers/parsers and `emit_*` below are TRUSTED (they are the "regeneration" step); they are
kept small, are cross-checked at run time by harness/gx/props/c38.py (against the real generator's
output, against a Python twin, and against node's own reading of the object literals when node
is installed), and fail loudly (gx.common.Infra) on any shape they do not understand.
"""
import json
import math
import os
import re
import sys

from gx.common import Infra, REPO, LEAN_DIR

GEN_DIR = os.path.join(LEAN_DIR, "Generated")


# ----------------------------------------------------------------------------- paths (GRIST_REPO root)
FALLBACK_ROOT = "/repo"
fallbacks_used = []


def repo_path(*parts):
  """Path under the GRIST_REPO root.  Only when GRIST_REPO is a partial copy that lacks the file
  altogether (e.g. just sandbox/ was copied) the pinned /repo supplies it; this is recorded in the
  evidence (`tree.files_taken_from_/repo`)."""
  p = os.path.join(REPO, *parts)
  if not os.path.exists(p) and os.path.realpath(REPO) != os.path.realpath(FALLBACK_ROOT):
    q = os.path.join(FALLBACK_ROOT, *parts)
    if os.path.exists(q):
      if q not in fallbacks_used:
        fallbacks_used.append(q)
      return q
  return p

SCHEMA_TS = ("app", "common", "schema.ts")
GRIST_TYPES_TS = ("app", "common", "gristTypes.ts")
GEN_JS_SCHEMA = ("sandbox", "gen_js_schema.py")


def read_text(*parts):
  p = repo_path(*parts)
  try:
    with open(p, "rb") as f:
      return f.read().decode("utf-8")
  except (OSError, UnicodeDecodeError) as e:
    raise Infra("cannot read %s: %s" % (p, e))


# ----------------------------------------------------------------------------- Python side
def py_schema():
  """{'version': int, 'tables': [{'tableId', 'columns': [{'id','type','isFormula','formula'}]}]}
  from the tree's schema.py (imported; sandbox/grist of GRIST_REPO is on sys.path)."""
  try:
    import schema
  except Exception as e:     # a schema.py that does not import is not something we can judge
    raise Infra("cannot import schema.py: %r" % (e,))
  if os.path.realpath(os.path.dirname(schema.__file__)) != os.path.realpath(repo_path("sandbox", "grist")):
    raise Infra("schema imported from %s, not from %s" % (schema.__file__, repo_path("sandbox", "grist")))
  ver = schema.SCHEMA_VERSION
  if type(ver) is not int:
    raise Infra("SCHEMA_VERSION is not an int: %r" % (ver,))
  tables = []
  for t in schema.schema_create_actions():
    cols = []
    for c in t.columns:
      if not (isinstance(c.get("id"), str) and isinstance(c.get("type"), str)
              and isinstance(c.get("isFormula"), bool) and isinstance(c.get("formula"), str)):
        raise Infra("unexpected column shape in schema_create_actions(): %r" % (c,))
      cols.append({"id": c["id"], "type": c["type"], "isFormula": c["isFormula"], "formula": c["formula"]})
    if not isinstance(t.table_id, str):
      raise Infra("unexpected table id %r" % (t.table_id,))
    tables.append({"tableId": t.table_id, "columns": cols})
  return {"version": ver, "tables": tables}


def canon_py_value(v):
  """Python default value -> canonical DefVal (JSON form)."""
  if v is None:
    return {"k": "null"}
  if isinstance(v, bool):
    return {"k": "bool", "v": v}
  if isinstance(v, int):
    return {"k": "num", "v": str(v)}
  if isinstance(v, float):
    return canon_float(v)
  if isinstance(v, str):
    return {"k": "str", "v": v}
  if isinstance(v, (list, tuple)):
    return {"k": "list", "v": [json.dumps(canon_py_value(x), sort_keys=True) for x in v]}
  return {"k": "other", "v": "py:" + repr(v)}


def canon_float(f):
  if math.isnan(f):
    return {"k": "nan"}
  if math.isinf(f):
    return {"k": "posInf" if f > 0 else "negInf"}
  if f == int(f):
    return {"k": "num", "v": str(int(f))}
  return {"k": "frac", "v": repr(f)}


def pure(t):
  return t.split(":", 1)[0]


def py_type_names():
  """Type names the Python side knows: keys of usertypes._type_defaults (when it still exists
  under that name) and the typename() / class name of every BaseColumnType subclass."""
  import usertypes
  names = []
  d = getattr(usertypes, "_type_defaults", None)
  if isinstance(d, dict):
    names += [k for k in d if isinstance(k, str)]
  base = getattr(usertypes, "BaseColumnType", None)
  if base is not None:
    for n in sorted(dir(usertypes)):
      c = getattr(usertypes, n)
      if isinstance(c, type) and issubclass(c, base) and c is not base:
        try:
          names.append(c.typename())
        except Exception:
          pass
  return list(dict.fromkeys(names))


def py_defaults(names):
  """[(type name, canonical default)] by CALLING usertypes.get_type_default for every name."""
  try:
    import usertypes
    return [(n, canon_py_value(usertypes.get_type_default(n))) for n in names]
  except Infra:
    raise
  except Exception as e:
    raise Infra("usertypes.get_type_default failed: %r" % (e,))


# ----------------------------------------------------------------------------- TS side: schema.ts
class TsParseError(Exception):
  pass


def strip_ts_comments(src):
  """Remove // and /* */ comments, leaving string literals intact."""
  out = []
  i, n = 0, len(src)
  while i < n:
    ch = src[i]
    if ch in "\"'`":
      j = i + 1
      while j < n and src[j] != ch:
        j += 2 if src[j] == "\\" else 1
      out.append(src[i:j + 1]); i = j + 1
    elif src.startswith("//", i):
      j = src.find("\n", i)
      i = n if j < 0 else j
    elif src.startswith("/*", i):
      j = src.find("*/", i + 2)
      if j < 0:
        raise TsParseError("unterminated /* comment")
      i = j + 2
    else:
      out.append(ch); i += 1
  return "".join(out)


_WS = re.compile(r"\s*")
_KEY = re.compile(r'"((?:[^"\\\n])*)"|([A-Za-z_$][\w$]*)')


class _Scan(object):
  def __init__(self, s, pos=0):
    self.s, self.i = s, pos

  def ws(self):
    self.i = _WS.match(self.s, self.i).end()

  def lit(self, text):
    self.ws()
    if not self.s.startswith(text, self.i):
      raise TsParseError("expected %r at offset %d: %r" % (text, self.i, self.s[self.i:self.i + 40]))
    self.i += len(text)

  def peek(self, text):
    self.ws()
    return self.s.startswith(text, self.i)

  def rx(self, rx, what):
    self.ws()
    m = rx.match(self.s, self.i)
    if not m:
      raise TsParseError("expected %s at offset %d: %r" % (what, self.i, self.s[self.i:self.i + 40]))
    self.i = m.end()
    return m

  def key(self):
    m = self.rx(_KEY, "a property name")
    return m.group(1) if m.group(1) is not None else m.group(2)


_STR = re.compile(r'"((?:[^"\\\n])*)"')
_TSTYPE = re.compile(r"[^;{}\n]+")


def parse_schema_ts(text):
  """app/common/schema.ts -> {'version', 'schema': [{'tableId','entries':[[id, type]]}], 'iface': [...]}
  Grammar accepted (comments and white space free-form):
     export const SCHEMA_VERSION = <int> ;
     export const schema = { ("<table>" : { (<id> : "<type>" ,)* } ,)* } ;
     export interface SchemaTypes { ("<table>" : { (<id> : <ts type> ;)* } ;)* }
  Anything else raises TsParseError."""
  src = strip_ts_comments(text)
  vs = re.findall(r"^export const SCHEMA_VERSION\s*=\s*(-?\d+)\s*;", src, re.M)
  if len(vs) != 1:
    raise TsParseError("expected exactly one SCHEMA_VERSION, found %d" % len(vs))
  m1 = list(re.finditer(r"^export const schema\s*=\s*\{", src, re.M))
  m2 = list(re.finditer(r"^export interface SchemaTypes\s*\{", src, re.M))
  if len(m1) != 1 or len(m2) != 1:
    raise TsParseError("expected one `export const schema` and one `export interface SchemaTypes`")
  sc = _Scan(src, m1[0].end())
  schema = []
  while not sc.peek("}"):
    tid = sc.key(); sc.lit(":"); sc.lit("{")
    entries = []
    while not sc.peek("}"):
      cid = sc.key(); sc.lit(":")
      ty = sc.rx(_STR, "a quoted column type").group(1)
      entries.append([cid, ty])
      if not sc.peek("}"):
        sc.lit(",")
    sc.lit("}")
    schema.append({"tableId": tid, "entries": entries})
    if sc.peek(","):
      sc.lit(",")
    elif not sc.peek("}"):
      raise TsParseError("expected , or } after table %s" % tid)
  sc.lit("}"); sc.lit(";")
  sc = _Scan(src, m2[0].end())
  iface = []
  while not sc.peek("}"):
    tid = sc.key(); sc.lit(":"); sc.lit("{")
    entries = []
    while not sc.peek("}"):
      cid = sc.key(); sc.lit(":")
      ty = sc.rx(_TSTYPE, "a type").group(0).strip()
      sc.lit(";")
      entries.append([cid, ty])
    sc.lit("}"); sc.lit(";")
    iface.append({"tableId": tid, "entries": entries})
  sc.lit("}")
  sc.ws()
  if sc.i != len(src):
    raise TsParseError("unexpected text after SchemaTypes: %r" % src[sc.i:sc.i + 40])
  return {"version": int(vs[0]), "schema": schema, "iface": iface}


# ----------------------------------------------------------------------------- TS side: gristTypes.ts
_NUM = re.compile(r"(?:0[xX][0-9a-fA-F]+|(?:\d+\.?\d*|\.\d+)(?:[eE][+-]?\d+)?)")
_IDENT = re.compile(r"[A-Za-z_$][\w$]*(?:\s*\.\s*[A-Za-z_$][\w$]*)*")
_JS_ESC = {"n": "\n", "t": "\t", "r": "\r", "b": "\b", "f": "\f", "v": "\v", "0": "\0"}


_JS_NUMBER_CONSTANTS = {"Number.MAX_SAFE_INTEGER": 9007199254740991.0, "Number.MIN_SAFE_INTEGER": -9007199254740991.0,
                        "Number.MAX_VALUE": sys.float_info.max, "Number.MIN_VALUE": 5e-324,
                        "Number.EPSILON": 2.0 ** -52}


def _js_string(sc):
  sc.ws()
  q = sc.s[sc.i]
  i = sc.i + 1
  out = []
  while True:
    if i >= len(sc.s) or sc.s[i] == "\n":
      raise TsParseError("unterminated string")
    c = sc.s[i]
    if c == q:
      break
    if c == "\\":
      e = sc.s[i + 1]
      if e == "u" and re.match(r"[0-9a-fA-F]{4}", sc.s[i + 2:i + 6]):
        out.append(chr(int(sc.s[i + 2:i + 6], 16))); i += 6
      elif e == "x" and re.match(r"[0-9a-fA-F]{2}", sc.s[i + 2:i + 4]):
        out.append(chr(int(sc.s[i + 2:i + 4], 16))); i += 4
      elif e in "ux":
        raise TsParseError("unsupported escape in string")
      else:
        out.append(_JS_ESC.get(e, e)); i += 2
    else:
      out.append(c); i += 1
  sc.i = i + 1
  return "".join(out)


def _js_value(sc):
  """A JS literal -> canonical DefVal.  Supported: null, true, false, numbers (with sign),
  Infinity, NaN, Number.POSITIVE_INFINITY / NEGATIVE_INFINITY / NaN, strings, arrays of these."""
  sc.ws()
  if sc.i >= len(sc.s):
    raise TsParseError("unexpected end of text")
  c = sc.s[sc.i]
  if c == "[":
    sc.i += 1
    items = []
    while not sc.peek("]"):
      items.append(_js_value(sc))
      if not sc.peek("]"):
        sc.lit(",")
    sc.lit("]")
    return {"k": "list", "v": [json.dumps(x, sort_keys=True) for x in items]}
  if c in "\"'":
    return {"k": "str", "v": _js_string(sc)}
  sign, signed = 1, False
  if c in "+-":
    sign, signed = (-1 if c == "-" else 1), True
    sc.i += 1
    sc.ws()
    c = sc.s[sc.i] if sc.i < len(sc.s) else ""
  m = _NUM.match(sc.s, sc.i)
  if m:
    sc.i = m.end()
    t = m.group(0)
    f = float(int(t, 16)) if t[:2].lower() == "0x" else float(t)
    return canon_float(sign * f)
  m = _IDENT.match(sc.s, sc.i)
  if not m:
    raise TsParseError("unsupported value expression at %r" % sc.s[sc.i:sc.i + 30])
  sc.i = m.end()
  name = re.sub(r"\s+", "", m.group(0))
  if name in ("Infinity", "Number.POSITIVE_INFINITY", "Number.NEGATIVE_INFINITY"):
    pos = (name != "Number.NEGATIVE_INFINITY") == (sign > 0)
    return {"k": "posInf" if pos else "negInf"}
  if name in ("NaN", "Number.NaN"):
    return {"k": "nan"}
  if name in _JS_NUMBER_CONSTANTS:
    return canon_float(sign * _JS_NUMBER_CONSTANTS[name])
  if signed:
    raise TsParseError("unsupported signed expression %r" % name)
  if name == "null":
    return {"k": "null"}
  if name in ("true", "false"):
    return {"k": "bool", "v": name == "true"}
  raise TsParseError("unsupported value expression %r" % name)


def default_values_literal(text):
  """The source text of the object literal bound to `_defaultValues` in gristTypes.ts."""
  src = strip_ts_comments(text)
  ms = list(re.finditer(r"\b(?:const|let|var)\s+_defaultValues\b", src))
  if len(ms) != 1:
    raise TsParseError("expected exactly one declaration of _defaultValues, found %d" % len(ms))
  i = ms[0].end()
  # skip an optional type annotation `: {...}` up to the `=` at brace depth 0
  depth = 0
  while i < len(src):
    c = src[i]
    if c in "{[(":
      depth += 1
    elif c in "}])":
      depth -= 1
    elif c == "=" and depth == 0:
      break
    elif c == ";" and depth == 0:
      raise TsParseError("_defaultValues has no initialiser")
    i += 1
  sc = _Scan(src, i + 1)
  sc.ws()
  start = sc.i
  return src, start


def _literal_end(src, start):
  """Offset just after the `}` matching the `{` at `start` (string-aware; comments already stripped)."""
  depth, i = 0, start
  while i < len(src):
    c = src[i]
    if c in "\"'`":
      j = i + 1
      while j < len(src) and src[j] != c:
        j += 2 if src[j] == "\\" else 1
      i = j
    elif c in "{[(":
      depth += 1
    elif c in "}])":
      depth -= 1
      if depth == 0:
        return i + 1
    i += 1
  raise TsParseError("unbalanced _defaultValues literal")


NODE_DEFAULTS_JS = r"""
const fs = require('fs');
const v = new Function('return (' + fs.readFileSync(0, 'utf8') + ');')();
function enc(x) {
  if (x === null) return {k: 'null'};
  if (typeof x === 'boolean') return {k: 'bool', v: x};
  if (typeof x === 'number') return {k: 'numraw', v: String(x)};
  if (typeof x === 'string') return {k: 'str', v: x};
  if (Array.isArray(x)) return {k: 'listraw', v: x.map(enc)};
  return {k: 'other', v: 'ts:' + String(x)};
}
console.log(JSON.stringify(Object.entries(v).map(([k, p]) => [k, enc(p[0])])));
"""


def _from_node(v):
  if v["k"] == "numraw":
    t = v["v"]
    return canon_float(float({"Infinity": "inf", "-Infinity": "-inf", "NaN": "nan"}.get(t, t)))
  if v["k"] == "listraw":
    return {"k": "list", "v": [json.dumps(_from_node(x), sort_keys=True) for x in v["v"]]}
  return v


def node_eval_defaults(literal):
  """node's own evaluation of the `_defaultValues` literal -> [(type, canonical default)], or None when
  node is not installed / cannot evaluate it (e.g. it refers to other identifiers of the module)."""
  import shutil
  import subprocess
  node = shutil.which("node")
  if not node:
    return None
  try:
    p = subprocess.run([node, "-e", NODE_DEFAULTS_JS], input=literal.encode("utf-8"), stdout=subprocess.PIPE,
                       stderr=subprocess.PIPE, timeout=60)
    if p.returncode != 0:
      return None
    return [(k, _from_node(v)) for k, v in json.loads(p.stdout.decode("utf-8"))]
  except (OSError, ValueError, KeyError, TypeError, subprocess.TimeoutExpired):
    return None


def parse_default_values(text):
  """gristTypes.ts -> ([(type name, canonical default)], literal text, how) : first element of each
  `[value, sql]` pair.  Value expressions outside the literal subset of `_js_value` are handed to
  node (when installed); otherwise TsParseError."""
  src, start = default_values_literal(text)
  literal = src[start:_literal_end(src, start)]
  try:
    return _parse_default_literal(literal), literal, "parser"
  except TsParseError as e:
    r = node_eval_defaults(literal)
    if r is None:
      raise TsParseError("%s (and node could not evaluate the literal either)" % e)
    return r, literal, "node"


def _parse_default_literal(literal):
  sc = _Scan(literal, 0)
  sc.lit("{")
  out = []
  while not sc.peek("}"):
    k = sc.key(); sc.lit(":")
    sc.lit("[")
    v = _js_value(sc)
    sc.lit(",")
    _js_value(sc)            # the SQLite text; not part of the property
    if sc.peek(","):
      sc.lit(",")
    sc.lit("]")
    if any(k == k0 for k0, _ in out):
      # JS keeps the LAST duplicate (at the first one's position)
      out = [(k0, v if k0 == k else v0) for k0, v0 in out]
    else:
      out.append((k, v))
    if not sc.peek("}"):
      sc.lit(",")
  sc.lit("}")
  sc.ws()
  if sc.i != len(literal):
    raise TsParseError("text after the _defaultValues literal")
  return out


# ----------------------------------------------------------------------------- collection
def collect(schema_ts_text=None):
  """Everything the C38 theorems are about, as plain JSON-able data."""
  py = py_schema()
  ts_text = read_text(*SCHEMA_TS) if schema_ts_text is None else schema_ts_text
  try:
    ts = parse_schema_ts(ts_text)
    ts_err = None
  except TsParseError as e:
    ts, ts_err = None, str(e)
  gt_text = read_text(*GRIST_TYPES_TS)
  try:
    ts_def, literal, ts_def_how = parse_default_values(gt_text)
  except TsParseError as e:
    raise Infra("cannot parse _defaultValues in %s: %s" % (repo_path(*GRIST_TYPES_TS), e))
  col_types = [c["type"] for t in py["tables"] for c in t["columns"]]
  if ts:
    col_types += [e[1] for t in ts["schema"] for e in t["entries"]]
  col_types = list(dict.fromkeys(col_types))
  names = list(dict.fromkeys(py_type_names() + [k for k, _ in ts_def] + [pure(t) for t in col_types]))
  unknown = "NoSuchType"
  while unknown in names:
    unknown += "_"
  py_def = py_defaults(names)
  return {"py": py, "ts": ts, "ts_error": ts_err, "ts_text": ts_text,
          "py_defaults": py_def, "ts_defaults": ts_def, "ts_defaults_literal": literal, "ts_defaults_how": ts_def_how,
          "col_types": col_types, "unknown_type": unknown}


# ----------------------------------------------------------------------------- Lean emission
_HYGIENE_WORDS = re.compile(r"sorry|admit|axiom|native_decide|bv_decide|implemented_by|unsafe|maxHeartbeats")


def lean_str(s):
  """Lean string literal for `s`.  Words that the framework's hygiene grep looks for in Lean sources
  (it does not skip string literals) get their first letter written as an escape, so that data from
  the repo (a column called `unsafe`, say) cannot trip it."""
  lit = _lean_str(s)
  return _HYGIENE_WORDS.sub(lambda m: "\\x%02x" % ord(m.group(0)[0]) + m.group(0)[1:], lit)


def _lean_str(s):
  out = ['"']
  for ch in s:
    o = ord(ch)
    if ch == "\\":
      out.append("\\\\")
    elif ch == '"':
      out.append('\\"')
    elif ch == "\n":
      out.append("\\n")
    elif ch == "\t":
      out.append("\\t")
    elif o < 0x20 or o == 0x7f:
      out.append("\\x%02x" % o)
    else:
      out.append(ch)
  out.append('"')
  return "".join(out)


def lean_int(n):
  return "(%d)" % n


def lean_bool(b):
  return "true" if b else "false"


def lean_defval(v):
  k = v["k"]
  if k in ("null", "posInf", "negInf", "nan"):
    return "DefVal." + k
  if k == "bool":
    return "DefVal.bool " + lean_bool(v["v"])
  if k == "num":
    return "DefVal.num " + lean_int(int(v["v"]))
  if k in ("frac", "str", "other"):
    return "DefVal.%s %s" % (k, lean_str(v["v"]))
  if k == "list":
    return "DefVal.list [%s]" % ", ".join(lean_str(x) for x in v["v"])
  raise Infra("unknown canonical value %r" % (v,))


HEADER = ("-- GENERATED by harness/gx/translate.py (gen_schema) from the current tree; do not edit.\n"
          "import GristModel.SchemaGen\nnamespace Grist.Generated\nopen Grist.SchemaGen\n\n")


def emit_schema_py(py):
  L = [HEADER]
  for i, t in enumerate(py["tables"]):
    L.append("def pyTable%d : TableSchema := ⟨%s, [\n" % (i, lean_str(t["tableId"])))
    L.append(",\n".join("  ⟨%s, %s, %s, %s⟩" % (lean_str(c["id"]), lean_str(c["type"]),
                                                  lean_bool(c["isFormula"]), lean_str(c["formula"]))
                        for c in t["columns"]))
    L.append("]⟩\n\n")
  L.append("def pySchema : PySchema := ⟨%s, [%s]⟩\n\nend Grist.Generated\n" % (
    lean_int(py["version"]), ", ".join("pyTable%d" % i for i in range(len(py["tables"])))))
  return "".join(L)


def _emit_ts_tables(prefix, tables):
  L = []
  for i, t in enumerate(tables):
    L.append("def %s%d : TsTable := ⟨%s, [\n" % (prefix, i, lean_str(t["tableId"])))
    L.append(",\n".join("  ⟨%s, %s⟩" % (lean_str(e[0]), lean_str(e[1])) for e in t["entries"]))
    L.append("]⟩\n\n")
  return "".join(L), "[%s]" % ", ".join("%s%d" % (prefix, i) for i in range(len(tables)))


def emit_schema_ts(ts, ts_text):
  a, la = _emit_ts_tables("tsSchemaTable", ts["schema"])
  b, lb = _emit_ts_tables("tsIfaceTable", ts["iface"])
  lines = ts_text.split("\n")
  L = [HEADER, a, b,
       "def tsSchema : TsSchema := ⟨%s, %s, %s⟩\n\n" % (lean_int(ts["version"]), la, lb),
       "/-- app/common/schema.ts split at every \"\\n\" (so the last element is \"\" iff the file ends with a newline) -/\n",
       "def tsFileLines : List String := [\n",
       ",\n".join("  " + lean_str(l) for l in lines),
       "]\n\nend Grist.Generated\n"]
  return "".join(L)


def _emit_defaults(name, table):
  return "def %s : DefaultTable := [\n%s]\n" % (
    name, ",\n".join("  (%s, %s)" % (lean_str(k), lean_defval(v)) for k, v in table))


def emit_defaults_py(d):
  return (HEADER + _emit_defaults("pyDefaults", d["py_defaults"]) +
          "\n/-- every column type used by either schema (probe set for the defaults) -/\n"
          "def colTypes : List String := [%s]\n" % ", ".join(lean_str(t) for t in d["col_types"]) +
          "\n/-- a type name in neither table -/\ndef unknownType : String := %s\n" % lean_str(d["unknown_type"]) +
          "\nend Grist.Generated\n")


def emit_defaults_ts(d):
  return HEADER + _emit_defaults("tsDefaults", d["ts_defaults"]) + "\nend Grist.Generated\n"


GENERATED_MODULES = ["Generated.SchemaPy", "Generated.SchemaTs", "Generated.DefaultsPy", "Generated.DefaultsTs"]


def write_if_changed(path, text):
  try:
    with open(path, encoding="utf-8") as f:
      if f.read() == text:
        return False
  except OSError:
    pass
  tmp = path + ".tmp%d" % os.getpid()
  with open(tmp, "w", encoding="utf-8") as f:
    f.write(text)
  os.replace(tmp, path)
  return True


def gen_schema(d=None):
  """Write lean/Generated/{SchemaPy,SchemaTs,DefaultsPy,DefaultsTs}.lean for the current tree.
  Returns the collected data.  Raises Infra if schema.ts cannot be parsed (the caller decides
  first whether that is a property violation: see c38.py)."""
  d = d or collect()
  if d["ts"] is None:
    raise Infra("cannot parse %s: %s" % (repo_path(*SCHEMA_TS), d["ts_error"]))
  os.makedirs(GEN_DIR, exist_ok=True)
  write_if_changed(os.path.join(GEN_DIR, "SchemaPy.lean"), emit_schema_py(d["py"]))
  write_if_changed(os.path.join(GEN_DIR, "SchemaTs.lean"), emit_schema_ts(d["ts"], d["ts_text"]))
  write_if_changed(os.path.join(GEN_DIR, "DefaultsPy.lean"), emit_defaults_py(d))
  write_if_changed(os.path.join(GEN_DIR, "DefaultsTs.lean"), emit_defaults_ts(d))
  return d


def main(argv):
  what = argv[0] if argv else "all"
  from gx.common import setup_repo_path
  setup_repo_path()
  if what in ("all", "schema"):
    try:
      gen_schema()
    except Infra as e:
      print("translate: gen_schema failed: %s" % e)
      return 2
  return 0


if __name__ == "__main__":
  sys.exit(main(sys.argv[1:]))
