# Import shim: /venv lacks friendly_traceback; codebuilder.save_to_linecache only needs
# source_cache.cache.add(filename, text).  friendly_errors.friendly_message swallows ImportError.
